(module
;;#prelude

  (func $pf32 (param $v f32)
    local.get $v local.get $v f32.ne
    if i32.const -7777 call $p32 else local.get $v i32.reinterpret_f32 call $p32 end)
  (func $pf64 (param $v f64)
    local.get $v local.get $v f64.ne
    if i64.const -7777 call $p64 else local.get $v i64.reinterpret_f64 call $p64 end)
  (func $nan32 (result f32) f32.const 0 f32.const 0 f32.div)
  (func $nan64 (result f64) f64.const 0 f64.const 0 f64.div)
  (func $inf32 (result f32) f32.const 1 f32.const 0 f32.div)
  (func $inf64 (result f64) f64.const 1 f64.const 0 f64.div)
  (func $op (param $a f32) (param $b f32) (result f32)
    i64.const -1 i64.const -1 i64.const -1 drop drop drop
    local.get $a local.get $b f32.max)
  (func $main (export "main")
    f32.const 0 f32.const 1 call $op call $pf32
    f32.const 0 f32.const -1 call $op call $pf32
    f32.const 0 f32.const 0.5 call $op call $pf32
    f32.const 0 f32.const -0.5 call $op call $pf32
    f32.const 0 f32.const 1.5 call $op call $pf32
    f32.const 0 f32.const 2.5 call $op call $pf32
    f32.const 0 f32.const -2.5 call $op call $pf32
    f32.const 0 f32.const 3.5 call $op call $pf32
    f32.const 0 f32.const 0.49999997 call $op call $pf32
    f32.const 0 f32.const 8388609 call $op call $pf32
    f32.const 0 f32.const -8388609 call $op call $pf32
    f32.const 0 f32.const 16777216 call $op call $pf32
    f32.const 0 f32.const 3.4028234e38 call $op call $pf32
    f32.const 0 f32.const 1e-40 call $op call $pf32
    f32.const 0 f32.const -1e-40 call $op call $pf32
    f32.const 0 f32.const 1.17549435e-38 call $op call $pf32
    f32.const 0 f32.const 123456.789 call $op call $pf32
    f32.const 0 call $inf32 call $op call $pf32
    f32.const 0 call $inf32 f32.neg call $op call $pf32
    f32.const -0 f32.const 1 call $op call $pf32
    f32.const -0 f32.const -1 call $op call $pf32
    f32.const -0 f32.const 0.5 call $op call $pf32
    f32.const -0 f32.const -0.5 call $op call $pf32
    f32.const -0 f32.const 1.5 call $op call $pf32
    f32.const -0 f32.const 2.5 call $op call $pf32
    f32.const -0 f32.const -2.5 call $op call $pf32
    f32.const -0 f32.const 3.5 call $op call $pf32
    f32.const -0 f32.const 0.49999997 call $op call $pf32
    f32.const -0 f32.const 8388609 call $op call $pf32
    f32.const -0 f32.const -8388609 call $op call $pf32
    f32.const -0 f32.const 16777216 call $op call $pf32
    f32.const -0 f32.const 3.4028234e38 call $op call $pf32
    f32.const -0 f32.const 1e-40 call $op call $pf32
    f32.const -0 f32.const -1e-40 call $op call $pf32
    f32.const -0 f32.const 1.17549435e-38 call $op call $pf32
    f32.const -0 f32.const 123456.789 call $op call $pf32
    f32.const -0 call $inf32 call $op call $pf32
    f32.const -0 call $inf32 f32.neg call $op call $pf32
    f32.const 1 f32.const 0 call $op call $pf32
    f32.const 1 f32.const -0 call $op call $pf32
    f32.const 1 f32.const 1 call $op call $pf32
    f32.const 1 f32.const -1 call $op call $pf32
    f32.const 1 f32.const 0.5 call $op call $pf32
    f32.const 1 f32.const -0.5 call $op call $pf32
    f32.const 1 f32.const 1.5 call $op call $pf32
    f32.const 1 f32.const 2.5 call $op call $pf32
    f32.const 1 f32.const -2.5 call $op call $pf32
    f32.const 1 f32.const 3.5 call $op call $pf32
    f32.const 1 f32.const 0.49999997 call $op call $pf32
    f32.const 1 f32.const 8388609 call $op call $pf32
    f32.const 1 f32.const -8388609 call $op call $pf32
    f32.const 1 f32.const 16777216 call $op call $pf32
    f32.const 1 f32.const 3.4028234e38 call $op call $pf32
    f32.const 1 f32.const 1e-40 call $op call $pf32
    f32.const 1 f32.const -1e-40 call $op call $pf32
    f32.const 1 f32.const 1.17549435e-38 call $op call $pf32
    f32.const 1 f32.const 123456.789 call $op call $pf32
    f32.const 1 call $inf32 call $op call $pf32
    f32.const 1 call $inf32 f32.neg call $op call $pf32
    f32.const -1 f32.const 0 call $op call $pf32
    f32.const -1 f32.const -0 call $op call $pf32
    f32.const -1 f32.const 1 call $op call $pf32
    f32.const -1 f32.const -1 call $op call $pf32
    f32.const -1 f32.const 0.5 call $op call $pf32
    f32.const -1 f32.const -0.5 call $op call $pf32
    f32.const -1 f32.const 1.5 call $op call $pf32
    f32.const -1 f32.const 2.5 call $op call $pf32
    f32.const -1 f32.const -2.5 call $op call $pf32
    f32.const -1 f32.const 3.5 call $op call $pf32
    f32.const -1 f32.const 0.49999997 call $op call $pf32
    f32.const -1 f32.const 8388609 call $op call $pf32
    f32.const -1 f32.const -8388609 call $op call $pf32
    f32.const -1 f32.const 16777216 call $op call $pf32
    f32.const -1 f32.const 3.4028234e38 call $op call $pf32
    f32.const -1 f32.const 1e-40 call $op call $pf32
    f32.const -1 f32.const -1e-40 call $op call $pf32
    f32.const -1 f32.const 1.17549435e-38 call $op call $pf32
    f32.const -1 f32.const 123456.789 call $op call $pf32
    f32.const -1 call $inf32 call $op call $pf32
    f32.const -1 call $inf32 f32.neg call $op call $pf32
    f32.const 0.5 f32.const 0 call $op call $pf32
    f32.const 0.5 f32.const -0 call $op call $pf32
    f32.const 0.5 f32.const 1 call $op call $pf32
    f32.const 0.5 f32.const -1 call $op call $pf32
    f32.const 0.5 f32.const 0.5 call $op call $pf32
    f32.const 0.5 f32.const -0.5 call $op call $pf32
    f32.const 0.5 f32.const 1.5 call $op call $pf32
    f32.const 0.5 f32.const 2.5 call $op call $pf32
    f32.const 0.5 f32.const -2.5 call $op call $pf32
    f32.const 0.5 f32.const 3.5 call $op call $pf32
    f32.const 0.5 f32.const 0.49999997 call $op call $pf32
    f32.const 0.5 f32.const 8388609 call $op call $pf32
    f32.const 0.5 f32.const -8388609 call $op call $pf32
    f32.const 0.5 f32.const 16777216 call $op call $pf32
    f32.const 0.5 f32.const 3.4028234e38 call $op call $pf32
    f32.const 0.5 f32.const 1e-40 call $op call $pf32
    f32.const 0.5 f32.const -1e-40 call $op call $pf32
    f32.const 0.5 f32.const 1.17549435e-38 call $op call $pf32
    f32.const 0.5 f32.const 123456.789 call $op call $pf32
    f32.const 0.5 call $inf32 call $op call $pf32
    f32.const 0.5 call $inf32 f32.neg call $op call $pf32
    f32.const -0.5 f32.const 0 call $op call $pf32
    f32.const -0.5 f32.const -0 call $op call $pf32
    f32.const -0.5 f32.const 1 call $op call $pf32
    f32.const -0.5 f32.const -1 call $op call $pf32
    f32.const -0.5 f32.const 0.5 call $op call $pf32
    f32.const -0.5 f32.const -0.5 call $op call $pf32
    f32.const -0.5 f32.const 1.5 call $op call $pf32
    f32.const -0.5 f32.const 2.5 call $op call $pf32
    f32.const -0.5 f32.const -2.5 call $op call $pf32
    f32.const -0.5 f32.const 3.5 call $op call $pf32
    f32.const -0.5 f32.const 0.49999997 call $op call $pf32
    f32.const -0.5 f32.const 8388609 call $op call $pf32
    f32.const -0.5 f32.const -8388609 call $op call $pf32
    f32.const -0.5 f32.const 16777216 call $op call $pf32
    f32.const -0.5 f32.const 3.4028234e38 call $op call $pf32
    f32.const -0.5 f32.const 1e-40 call $op call $pf32
    f32.const -0.5 f32.const -1e-40 call $op call $pf32
    f32.const -0.5 f32.const 1.17549435e-38 call $op call $pf32
    f32.const -0.5 f32.const 123456.789 call $op call $pf32
    f32.const -0.5 call $inf32 call $op call $pf32
    f32.const -0.5 call $inf32 f32.neg call $op call $pf32
    f32.const 1.5 f32.const 0 call $op call $pf32
    f32.const 1.5 f32.const -0 call $op call $pf32
    f32.const 1.5 f32.const 1 call $op call $pf32
    f32.const 1.5 f32.const -1 call $op call $pf32
    f32.const 1.5 f32.const 0.5 call $op call $pf32
    f32.const 1.5 f32.const -0.5 call $op call $pf32
    f32.const 1.5 f32.const 1.5 call $op call $pf32
    f32.const 1.5 f32.const 2.5 call $op call $pf32
    f32.const 1.5 f32.const -2.5 call $op call $pf32
    f32.const 1.5 f32.const 3.5 call $op call $pf32
    f32.const 1.5 f32.const 0.49999997 call $op call $pf32
    f32.const 1.5 f32.const 8388609 call $op call $pf32
    f32.const 1.5 f32.const -8388609 call $op call $pf32
    f32.const 1.5 f32.const 16777216 call $op call $pf32
    f32.const 1.5 f32.const 3.4028234e38 call $op call $pf32
    f32.const 1.5 f32.const 1e-40 call $op call $pf32
    f32.const 1.5 f32.const -1e-40 call $op call $pf32
    f32.const 1.5 f32.const 1.17549435e-38 call $op call $pf32
    f32.const 1.5 f32.const 123456.789 call $op call $pf32
    f32.const 1.5 call $inf32 call $op call $pf32
    f32.const 1.5 call $inf32 f32.neg call $op call $pf32
    f32.const 2.5 f32.const 0 call $op call $pf32
    f32.const 2.5 f32.const -0 call $op call $pf32
    f32.const 2.5 f32.const 1 call $op call $pf32
    f32.const 2.5 f32.const -1 call $op call $pf32
    f32.const 2.5 f32.const 0.5 call $op call $pf32
    f32.const 2.5 f32.const -0.5 call $op call $pf32
    f32.const 2.5 f32.const 1.5 call $op call $pf32
    f32.const 2.5 f32.const 2.5 call $op call $pf32
    f32.const 2.5 f32.const -2.5 call $op call $pf32
    f32.const 2.5 f32.const 3.5 call $op call $pf32
    f32.const 2.5 f32.const 0.49999997 call $op call $pf32
    f32.const 2.5 f32.const 8388609 call $op call $pf32
    f32.const 2.5 f32.const -8388609 call $op call $pf32
    f32.const 2.5 f32.const 16777216 call $op call $pf32
    f32.const 2.5 f32.const 3.4028234e38 call $op call $pf32
    f32.const 2.5 f32.const 1e-40 call $op call $pf32
    f32.const 2.5 f32.const -1e-40 call $op call $pf32
    f32.const 2.5 f32.const 1.17549435e-38 call $op call $pf32
    f32.const 2.5 f32.const 123456.789 call $op call $pf32
    f32.const 2.5 call $inf32 call $op call $pf32
    f32.const 2.5 call $inf32 f32.neg call $op call $pf32
    f32.const -2.5 f32.const 0 call $op call $pf32
    f32.const -2.5 f32.const -0 call $op call $pf32
    f32.const -2.5 f32.const 1 call $op call $pf32
    f32.const -2.5 f32.const -1 call $op call $pf32
    f32.const -2.5 f32.const 0.5 call $op call $pf32
    f32.const -2.5 f32.const -0.5 call $op call $pf32
    f32.const -2.5 f32.const 1.5 call $op call $pf32
    f32.const -2.5 f32.const 2.5 call $op call $pf32
    f32.const -2.5 f32.const -2.5 call $op call $pf32
    f32.const -2.5 f32.const 3.5 call $op call $pf32
    f32.const -2.5 f32.const 0.49999997 call $op call $pf32
    f32.const -2.5 f32.const 8388609 call $op call $pf32
    f32.const -2.5 f32.const -8388609 call $op call $pf32
    f32.const -2.5 f32.const 16777216 call $op call $pf32
    f32.const -2.5 f32.const 3.4028234e38 call $op call $pf32
    f32.const -2.5 f32.const 1e-40 call $op call $pf32
    f32.const -2.5 f32.const -1e-40 call $op call $pf32
    f32.const -2.5 f32.const 1.17549435e-38 call $op call $pf32
    f32.const -2.5 f32.const 123456.789 call $op call $pf32
    f32.const -2.5 call $inf32 call $op call $pf32
    f32.const -2.5 call $inf32 f32.neg call $op call $pf32
    f32.const 3.5 f32.const 0 call $op call $pf32
    f32.const 3.5 f32.const -0 call $op call $pf32
    f32.const 3.5 f32.const 1 call $op call $pf32
    f32.const 3.5 f32.const -1 call $op call $pf32
    f32.const 3.5 f32.const 0.5 call $op call $pf32
    f32.const 3.5 f32.const -0.5 call $op call $pf32
    f32.const 3.5 f32.const 1.5 call $op call $pf32
    f32.const 3.5 f32.const 2.5 call $op call $pf32
    f32.const 3.5 f32.const -2.5 call $op call $pf32
    f32.const 3.5 f32.const 3.5 call $op call $pf32
    f32.const 3.5 f32.const 0.49999997 call $op call $pf32
    f32.const 3.5 f32.const 8388609 call $op call $pf32
    f32.const 3.5 f32.const -8388609 call $op call $pf32
    f32.const 3.5 f32.const 16777216 call $op call $pf32
    f32.const 3.5 f32.const 3.4028234e38 call $op call $pf32
    f32.const 3.5 f32.const 1e-40 call $op call $pf32
    f32.const 3.5 f32.const -1e-40 call $op call $pf32
    f32.const 3.5 f32.const 1.17549435e-38 call $op call $pf32
    f32.const 3.5 f32.const 123456.789 call $op call $pf32
    f32.const 3.5 call $inf32 call $op call $pf32
    f32.const 3.5 call $inf32 f32.neg call $op call $pf32
    f32.const 0.49999997 f32.const 0 call $op call $pf32
    f32.const 0.49999997 f32.const -0 call $op call $pf32
    f32.const 0.49999997 f32.const 1 call $op call $pf32
    f32.const 0.49999997 f32.const -1 call $op call $pf32
    f32.const 0.49999997 f32.const 0.5 call $op call $pf32
    f32.const 0.49999997 f32.const -0.5 call $op call $pf32
    f32.const 0.49999997 f32.const 1.5 call $op call $pf32
    f32.const 0.49999997 f32.const 2.5 call $op call $pf32
    f32.const 0.49999997 f32.const -2.5 call $op call $pf32
    f32.const 0.49999997 f32.const 3.5 call $op call $pf32
    f32.const 0.49999997 f32.const 0.49999997 call $op call $pf32
    f32.const 0.49999997 f32.const 8388609 call $op call $pf32
    f32.const 0.49999997 f32.const -8388609 call $op call $pf32
    f32.const 0.49999997 f32.const 16777216 call $op call $pf32
    f32.const 0.49999997 f32.const 3.4028234e38 call $op call $pf32
    f32.const 0.49999997 f32.const 1e-40 call $op call $pf32
    f32.const 0.49999997 f32.const -1e-40 call $op call $pf32
    f32.const 0.49999997 f32.const 1.17549435e-38 call $op call $pf32
    f32.const 0.49999997 f32.const 123456.789 call $op call $pf32
    f32.const 0.49999997 call $inf32 call $op call $pf32
    f32.const 0.49999997 call $inf32 f32.neg call $op call $pf32
    f32.const 8388609 f32.const 0 call $op call $pf32
    f32.const 8388609 f32.const -0 call $op call $pf32
    f32.const 8388609 f32.const 1 call $op call $pf32
    f32.const 8388609 f32.const -1 call $op call $pf32
    f32.const 8388609 f32.const 0.5 call $op call $pf32
    f32.const 8388609 f32.const -0.5 call $op call $pf32
    f32.const 8388609 f32.const 1.5 call $op call $pf32
    f32.const 8388609 f32.const 2.5 call $op call $pf32
    f32.const 8388609 f32.const -2.5 call $op call $pf32
    f32.const 8388609 f32.const 3.5 call $op call $pf32
    f32.const 8388609 f32.const 0.49999997 call $op call $pf32
    f32.const 8388609 f32.const 8388609 call $op call $pf32
    f32.const 8388609 f32.const -8388609 call $op call $pf32
    f32.const 8388609 f32.const 16777216 call $op call $pf32
    f32.const 8388609 f32.const 3.4028234e38 call $op call $pf32
    f32.const 8388609 f32.const 1e-40 call $op call $pf32
    f32.const 8388609 f32.const -1e-40 call $op call $pf32
    f32.const 8388609 f32.const 1.17549435e-38 call $op call $pf32
    f32.const 8388609 f32.const 123456.789 call $op call $pf32
    f32.const 8388609 call $inf32 call $op call $pf32
    f32.const 8388609 call $inf32 f32.neg call $op call $pf32
    f32.const -8388609 f32.const 0 call $op call $pf32
    f32.const -8388609 f32.const -0 call $op call $pf32
    f32.const -8388609 f32.const 1 call $op call $pf32
    f32.const -8388609 f32.const -1 call $op call $pf32
    f32.const -8388609 f32.const 0.5 call $op call $pf32
    f32.const -8388609 f32.const -0.5 call $op call $pf32
    f32.const -8388609 f32.const 1.5 call $op call $pf32
    f32.const -8388609 f32.const 2.5 call $op call $pf32
    f32.const -8388609 f32.const -2.5 call $op call $pf32
    f32.const -8388609 f32.const 3.5 call $op call $pf32
    f32.const -8388609 f32.const 0.49999997 call $op call $pf32
    f32.const -8388609 f32.const 8388609 call $op call $pf32
    f32.const -8388609 f32.const -8388609 call $op call $pf32
    f32.const -8388609 f32.const 16777216 call $op call $pf32
    f32.const -8388609 f32.const 3.4028234e38 call $op call $pf32
    f32.const -8388609 f32.const 1e-40 call $op call $pf32
    f32.const -8388609 f32.const -1e-40 call $op call $pf32
    f32.const -8388609 f32.const 1.17549435e-38 call $op call $pf32
    f32.const -8388609 f32.const 123456.789 call $op call $pf32
    f32.const -8388609 call $inf32 call $op call $pf32
    f32.const -8388609 call $inf32 f32.neg call $op call $pf32
    f32.const 16777216 f32.const 0 call $op call $pf32
    f32.const 16777216 f32.const -0 call $op call $pf32
    f32.const 16777216 f32.const 1 call $op call $pf32
    f32.const 16777216 f32.const -1 call $op call $pf32
    f32.const 16777216 f32.const 0.5 call $op call $pf32
    f32.const 16777216 f32.const -0.5 call $op call $pf32
    f32.const 16777216 f32.const 1.5 call $op call $pf32
    f32.const 16777216 f32.const 2.5 call $op call $pf32
    f32.const 16777216 f32.const -2.5 call $op call $pf32
    f32.const 16777216 f32.const 3.5 call $op call $pf32
    f32.const 16777216 f32.const 0.49999997 call $op call $pf32
    f32.const 16777216 f32.const 8388609 call $op call $pf32
    f32.const 16777216 f32.const -8388609 call $op call $pf32
    f32.const 16777216 f32.const 16777216 call $op call $pf32
    f32.const 16777216 f32.const 3.4028234e38 call $op call $pf32
    f32.const 16777216 f32.const 1e-40 call $op call $pf32
    f32.const 16777216 f32.const -1e-40 call $op call $pf32
    f32.const 16777216 f32.const 1.17549435e-38 call $op call $pf32
    f32.const 16777216 f32.const 123456.789 call $op call $pf32
    f32.const 16777216 call $inf32 call $op call $pf32
    f32.const 16777216 call $inf32 f32.neg call $op call $pf32
    f32.const 3.4028234e38 f32.const 0 call $op call $pf32
    f32.const 3.4028234e38 f32.const -0 call $op call $pf32
    f32.const 3.4028234e38 f32.const 1 call $op call $pf32
    f32.const 3.4028234e38 f32.const -1 call $op call $pf32
    f32.const 3.4028234e38 f32.const 0.5 call $op call $pf32
    f32.const 3.4028234e38 f32.const -0.5 call $op call $pf32
    f32.const 3.4028234e38 f32.const 1.5 call $op call $pf32
    f32.const 3.4028234e38 f32.const 2.5 call $op call $pf32
    f32.const 3.4028234e38 f32.const -2.5 call $op call $pf32
    f32.const 3.4028234e38 f32.const 3.5 call $op call $pf32
    f32.const 3.4028234e38 f32.const 0.49999997 call $op call $pf32
    f32.const 3.4028234e38 f32.const 8388609 call $op call $pf32
    f32.const 3.4028234e38 f32.const -8388609 call $op call $pf32
    f32.const 3.4028234e38 f32.const 16777216 call $op call $pf32
    f32.const 3.4028234e38 f32.const 3.4028234e38 call $op call $pf32
    f32.const 3.4028234e38 f32.const 1e-40 call $op call $pf32
    f32.const 3.4028234e38 f32.const -1e-40 call $op call $pf32
    f32.const 3.4028234e38 f32.const 1.17549435e-38 call $op call $pf32
    f32.const 3.4028234e38 f32.const 123456.789 call $op call $pf32
    f32.const 3.4028234e38 call $inf32 call $op call $pf32
    f32.const 3.4028234e38 call $inf32 f32.neg call $op call $pf32
    f32.const 1e-40 f32.const 0 call $op call $pf32
    f32.const 1e-40 f32.const -0 call $op call $pf32
    f32.const 1e-40 f32.const 1 call $op call $pf32
    f32.const 1e-40 f32.const -1 call $op call $pf32
    f32.const 1e-40 f32.const 0.5 call $op call $pf32
    f32.const 1e-40 f32.const -0.5 call $op call $pf32
    f32.const 1e-40 f32.const 1.5 call $op call $pf32
    f32.const 1e-40 f32.const 2.5 call $op call $pf32
    f32.const 1e-40 f32.const -2.5 call $op call $pf32
    f32.const 1e-40 f32.const 3.5 call $op call $pf32
    f32.const 1e-40 f32.const 0.49999997 call $op call $pf32
    f32.const 1e-40 f32.const 8388609 call $op call $pf32
    f32.const 1e-40 f32.const -8388609 call $op call $pf32
    f32.const 1e-40 f32.const 16777216 call $op call $pf32
    f32.const 1e-40 f32.const 3.4028234e38 call $op call $pf32
    f32.const 1e-40 f32.const 1e-40 call $op call $pf32
    f32.const 1e-40 f32.const -1e-40 call $op call $pf32
    f32.const 1e-40 f32.const 1.17549435e-38 call $op call $pf32
    f32.const 1e-40 f32.const 123456.789 call $op call $pf32
    f32.const 1e-40 call $inf32 call $op call $pf32
    f32.const 1e-40 call $inf32 f32.neg call $op call $pf32
    f32.const -1e-40 f32.const 0 call $op call $pf32
    f32.const -1e-40 f32.const -0 call $op call $pf32
    f32.const -1e-40 f32.const 1 call $op call $pf32
    f32.const -1e-40 f32.const -1 call $op call $pf32
    f32.const -1e-40 f32.const 0.5 call $op call $pf32
    f32.const -1e-40 f32.const -0.5 call $op call $pf32
    f32.const -1e-40 f32.const 1.5 call $op call $pf32
    f32.const -1e-40 f32.const 2.5 call $op call $pf32
    f32.const -1e-40 f32.const -2.5 call $op call $pf32
    f32.const -1e-40 f32.const 3.5 call $op call $pf32
    f32.const -1e-40 f32.const 0.49999997 call $op call $pf32
    f32.const -1e-40 f32.const 8388609 call $op call $pf32
    f32.const -1e-40 f32.const -8388609 call $op call $pf32
    f32.const -1e-40 f32.const 16777216 call $op call $pf32
    f32.const -1e-40 f32.const 3.4028234e38 call $op call $pf32
    f32.const -1e-40 f32.const 1e-40 call $op call $pf32
    f32.const -1e-40 f32.const -1e-40 call $op call $pf32
    f32.const -1e-40 f32.const 1.17549435e-38 call $op call $pf32
    f32.const -1e-40 f32.const 123456.789 call $op call $pf32
    f32.const -1e-40 call $inf32 call $op call $pf32
    f32.const -1e-40 call $inf32 f32.neg call $op call $pf32
    f32.const 1.17549435e-38 f32.const 0 call $op call $pf32
    f32.const 1.17549435e-38 f32.const -0 call $op call $pf32
    f32.const 1.17549435e-38 f32.const 1 call $op call $pf32
    f32.const 1.17549435e-38 f32.const -1 call $op call $pf32
    f32.const 1.17549435e-38 f32.const 0.5 call $op call $pf32
    f32.const 1.17549435e-38 f32.const -0.5 call $op call $pf32
    f32.const 1.17549435e-38 f32.const 1.5 call $op call $pf32
    f32.const 1.17549435e-38 f32.const 2.5 call $op call $pf32
    f32.const 1.17549435e-38 f32.const -2.5 call $op call $pf32
    f32.const 1.17549435e-38 f32.const 3.5 call $op call $pf32
    f32.const 1.17549435e-38 f32.const 0.49999997 call $op call $pf32
    f32.const 1.17549435e-38 f32.const 8388609 call $op call $pf32
    f32.const 1.17549435e-38 f32.const -8388609 call $op call $pf32
    f32.const 1.17549435e-38 f32.const 16777216 call $op call $pf32
    f32.const 1.17549435e-38 f32.const 3.4028234e38 call $op call $pf32
    f32.const 1.17549435e-38 f32.const 1e-40 call $op call $pf32
    f32.const 1.17549435e-38 f32.const -1e-40 call $op call $pf32
    f32.const 1.17549435e-38 f32.const 1.17549435e-38 call $op call $pf32
    f32.const 1.17549435e-38 f32.const 123456.789 call $op call $pf32
    f32.const 1.17549435e-38 call $inf32 call $op call $pf32
    f32.const 1.17549435e-38 call $inf32 f32.neg call $op call $pf32
    f32.const 123456.789 f32.const 0 call $op call $pf32
    f32.const 123456.789 f32.const -0 call $op call $pf32
    f32.const 123456.789 f32.const 1 call $op call $pf32
    f32.const 123456.789 f32.const -1 call $op call $pf32
    f32.const 123456.789 f32.const 0.5 call $op call $pf32
    f32.const 123456.789 f32.const -0.5 call $op call $pf32
    f32.const 123456.789 f32.const 1.5 call $op call $pf32
    f32.const 123456.789 f32.const 2.5 call $op call $pf32
    f32.const 123456.789 f32.const -2.5 call $op call $pf32
    f32.const 123456.789 f32.const 3.5 call $op call $pf32
    f32.const 123456.789 f32.const 0.49999997 call $op call $pf32
    f32.const 123456.789 f32.const 8388609 call $op call $pf32
    f32.const 123456.789 f32.const -8388609 call $op call $pf32
    f32.const 123456.789 f32.const 16777216 call $op call $pf32
    f32.const 123456.789 f32.const 3.4028234e38 call $op call $pf32
    f32.const 123456.789 f32.const 1e-40 call $op call $pf32
    f32.const 123456.789 f32.const -1e-40 call $op call $pf32
    f32.const 123456.789 f32.const 1.17549435e-38 call $op call $pf32
    f32.const 123456.789 f32.const 123456.789 call $op call $pf32
    f32.const 123456.789 call $inf32 call $op call $pf32
    f32.const 123456.789 call $inf32 f32.neg call $op call $pf32
    call $inf32 f32.const 0 call $op call $pf32
    call $inf32 f32.const -0 call $op call $pf32
    call $inf32 f32.const 1 call $op call $pf32
    call $inf32 f32.const -1 call $op call $pf32
    call $inf32 f32.const 0.5 call $op call $pf32
    call $inf32 f32.const -0.5 call $op call $pf32
    call $inf32 f32.const 1.5 call $op call $pf32
    call $inf32 f32.const 2.5 call $op call $pf32
    call $inf32 f32.const -2.5 call $op call $pf32
    call $inf32 f32.const 3.5 call $op call $pf32
    call $inf32 f32.const 0.49999997 call $op call $pf32
    call $inf32 f32.const 8388609 call $op call $pf32
    call $inf32 f32.const -8388609 call $op call $pf32
    call $inf32 f32.const 16777216 call $op call $pf32
    call $inf32 f32.const 3.4028234e38 call $op call $pf32
    call $inf32 f32.const 1e-40 call $op call $pf32
    call $inf32 f32.const -1e-40 call $op call $pf32
    call $inf32 f32.const 1.17549435e-38 call $op call $pf32
    call $inf32 f32.const 123456.789 call $op call $pf32
    call $inf32 call $inf32 call $op call $pf32
    call $inf32 call $inf32 f32.neg call $op call $pf32
    call $inf32 f32.neg f32.const 0 call $op call $pf32
    call $inf32 f32.neg f32.const -0 call $op call $pf32
    call $inf32 f32.neg f32.const 1 call $op call $pf32
    call $inf32 f32.neg f32.const -1 call $op call $pf32
    call $inf32 f32.neg f32.const 0.5 call $op call $pf32
    call $inf32 f32.neg f32.const -0.5 call $op call $pf32
    call $inf32 f32.neg f32.const 1.5 call $op call $pf32
    call $inf32 f32.neg f32.const 2.5 call $op call $pf32
    call $inf32 f32.neg f32.const -2.5 call $op call $pf32
    call $inf32 f32.neg f32.const 3.5 call $op call $pf32
    call $inf32 f32.neg f32.const 0.49999997 call $op call $pf32
    call $inf32 f32.neg f32.const 8388609 call $op call $pf32
    call $inf32 f32.neg f32.const -8388609 call $op call $pf32
    call $inf32 f32.neg f32.const 16777216 call $op call $pf32
    call $inf32 f32.neg f32.const 3.4028234e38 call $op call $pf32
    call $inf32 f32.neg f32.const 1e-40 call $op call $pf32
    call $inf32 f32.neg f32.const -1e-40 call $op call $pf32
    call $inf32 f32.neg f32.const 1.17549435e-38 call $op call $pf32
    call $inf32 f32.neg f32.const 123456.789 call $op call $pf32
    call $inf32 f32.neg call $inf32 call $op call $pf32
    call $inf32 f32.neg call $inf32 f32.neg call $op call $pf32
  )
)
