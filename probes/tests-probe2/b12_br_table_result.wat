(module
;;#prelude
  (func $sel (param i32) (result i32)
    block $a (result i32)
      block $b (result i32)
        i32.const 10
        local.get 0
        br_table $b $a $b
      end
      i32.const 100 i32.add
    end
  )
  (func $main (export "main")
    i32.const 0 call $sel call $p32
    i32.const 1 call $sel call $p32
    i32.const 2 call $sel call $p32
    i32.const 7 call $sel call $p32
  )
)
