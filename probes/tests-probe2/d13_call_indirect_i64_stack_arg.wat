(module
;;#prelude
  (type $t (func (param i64 i64 i64 i64 i64 i64 i64) (result i64)))
  (table 1 funcref) (elem (i32.const 0) $f)
  (func $f (param i64 i64 i64 i64 i64 i64 i64) (result i64) local.get 6)
  (func $main (export "main")
    i64.const 1 i64.const 2 i64.const 3 i64.const 4 i64.const 5 i64.const 6 i64.const 7
    i32.const 0 call_indirect (type $t) call $p64)
)
