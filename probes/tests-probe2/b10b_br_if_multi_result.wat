(module
;;#prelude
  (func $main (export "main")
    block (result i64 i64)
      i64.const 1 i64.const 2 i32.const 1 br_if 0
      drop drop i64.const 5 i64.const 6
    end
    call $p64 call $p64
    block (result i64 i64)
      i64.const 1 i64.const 2 i32.const 0 br_if 0
      drop drop i64.const 5 i64.const 6
    end
    call $p64 call $p64
  )
)
