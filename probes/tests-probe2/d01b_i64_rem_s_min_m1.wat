(module
;;#prelude
  (func $main (export "main")
    i64.const -9223372036854775808 i64.const -1 i64.rem_s call $p64)
)
