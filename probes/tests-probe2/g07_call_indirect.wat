(module
;;#prelude
  (type $ii (func (param i32 i32) (result i32)))
  (type $dd (func (param f64) (result f64 f64)))
  (type $v (func))
  (type $many (func (param i32 i32 i32 i32 i32 i32 i32 i32) (result i32)))
  (table 8 funcref)
  (elem (i32.const 0) $add $sub $dup $hello $m)
  (func $add (param i32 i32) (result i32) local.get 0 local.get 1 i32.add)
  (func $sub (param i32 i32) (result i32) local.get 0 local.get 1 i32.sub)
  (func $dup (param f64) (result f64 f64) local.get 0 local.get 0 f64.const 2 f64.mul)
  (func $hello i32.const 72 call $print_rune i32.const 10 call $print_rune)
  (func $m (param i32 i32 i32 i32 i32 i32 i32 i32) (result i32)
    local.get 6 i32.const 10 i32.mul local.get 7 i32.add)
  (func $main (export "main") (local $i i32)
    i64.const -1 i64.const -1 i64.const -1 i64.const -1 drop drop drop drop
    i32.const 10 i32.const 3 i32.const 0 call_indirect (type $ii) call $p32
    i32.const 1 local.set $i
    i32.const 10 i32.const 3 local.get $i call_indirect (type $ii) call $p32
    f64.const 1.25 i32.const 2 call_indirect (type $dd) i64.reinterpret_f64 call $p64 i64.reinterpret_f64 call $p64
    i32.const 3 call_indirect (type $v)
    i32.const 1 i32.const 2 i32.const 3 i32.const 4 i32.const 5 i32.const 6 i32.const 7 i32.const 8
    i32.const 4 call_indirect (type $many) call $p32
  )
)
