(module
;;#prelude
  (func $s32 (param $c i32) (result i32) i64.const -1 i64.const -1 i64.const -1 drop drop drop i32.const 10 i32.const 20 local.get $c select)
  (func $s64 (param $c i32) (result i64) i64.const -10000000000 i64.const 20000000000 local.get $c select)
  (func $sf32 (param $c i32) (result f32) f64.const 9 drop f32.const 1.5 f32.const 2.5 local.get $c select)
  (func $sf64 (param $c i32) (result f64) f64.const 1.5 f64.const -2.5 local.get $c select)
  (func $main (export "main")
    i32.const 0 call $s32 call $p32
    i32.const 1 call $s32 call $p32
    i32.const -2147483648 call $s32 call $p32
    i32.const 256 call $s32 call $p32
    i32.const 0 call $s64 call $p64
    i32.const 7 call $s64 call $p64
    i32.const 0 call $sf32 i32.reinterpret_f32 call $p32
    i32.const 65536 call $sf32 i32.reinterpret_f32 call $p32
    i32.const 0 call $sf64 i64.reinterpret_f64 call $p64
    i32.const 1 call $sf64 i64.reinterpret_f64 call $p64
  )
)
