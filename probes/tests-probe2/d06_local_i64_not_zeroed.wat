(module
;;#prelude
  (func $dirty (local $a i64) i64.const -1 local.set $a)
  (func $clean (local $a i64) local.get $a call $p64)
  (func $main (export "main") call $dirty call $clean)
)
