(module
;;#prelude
  (func $main (export "main")
    f64.const 18000000000000000000 i64.trunc_f64_u call $p64
    f32.const 18000000000000000000 i64.trunc_f32_u call $p64
    f64.const 9223372036854775808 i64.trunc_f64_u call $p64
    f64.const 4000000000 i32.trunc_f64_u call $p32
    f32.const 4000000000 i32.trunc_f32_u call $p32
    f64.const -0.9 i32.trunc_f64_u call $p32
    f64.const -0.9 i64.trunc_f64_u call $p64
  )
)
