(module
;;#prelude
  (func $f (param $x i64) (result i64) (local $t i64)
    local.get $x local.get $x local.get $x local.get $x local.get $x local.get $x local.get $x local.get $x
    local.get $x local.get $x local.get $x local.get $x local.get $x local.get $x local.get $x local.get $x
    local.get $x i64.const 1 i64.add call $g
    i64.add i64.add i64.add i64.add i64.add i64.add i64.add i64.add
    i64.add i64.add i64.add i64.add i64.add i64.add i64.add i64.add)
  (func $g (param $x i64) (result i64)
    local.get $x i64.const 10 i64.gt_s if (result i64) local.get $x else local.get $x call $f end)
  (func $main (export "main")
    i64.const 1 call $f call $p64)
)
