(module
;;#prelude
  (global $g (mut i32) (i32.const 1))
  (func $init global.get $g i32.const 41 i32.add global.set $g i32.const 83 call $print_rune i32.const 10 call $print_rune)
  (start $init)
  (func $main (export "main")
    global.get $g call $p32)
)
