(module
;;#prelude
  (func $nothing)
  (func $onlylocals (local i32) (local f64))
  (func $main (export "main")
    call $nothing call $onlylocals
    block end
    loop end
    i32.const 1 if end
    i32.const 0 if else end
    i32.const 1 if nop else nop end
    block $a block $b block $c end end end
    i32.const 66 call $print_rune)
)
