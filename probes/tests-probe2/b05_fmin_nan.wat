(module
;;#prelude
  (func $isnan32 (param f32) (result i32) local.get 0 local.get 0 f32.ne)
  (func $isnan64 (param f64) (result i32) local.get 0 local.get 0 f64.ne)
  (func $main (export "main")
    (local $n32 f32) (local $n64 f64)
    f32.const 0 f32.const 0 f32.div local.set $n32
    f64.const 0 f64.const 0 f64.div local.set $n64
    local.get $n32 f32.const 1 f32.min call $isnan32 call $p32
    f32.const 1 local.get $n32 f32.min call $isnan32 call $p32
    local.get $n32 f32.const 1 f32.max call $isnan32 call $p32
    f32.const 1 local.get $n32 f32.max call $isnan32 call $p32
    local.get $n64 f64.const 1 f64.min call $isnan64 call $p32
    f64.const 1 local.get $n64 f64.min call $isnan64 call $p32
    local.get $n64 f64.const 1 f64.max call $isnan64 call $p32
    f64.const 1 local.get $n64 f64.max call $isnan64 call $p32
  )
)
