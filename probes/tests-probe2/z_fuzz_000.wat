(module
;;#prelude

  (func $pf32 (param $v f32)
    local.get $v local.get $v f32.ne
    if i32.const -7777 call $p32 else local.get $v i32.reinterpret_f32 call $p32 end)
  (func $pf64 (param $v f64)
    local.get $v local.get $v f64.ne
    if i64.const -7777 call $p64 else local.get $v i64.reinterpret_f64 call $p64 end)
  (func $f (param $a i32) (param $b i64) (param $c f32) (param $d f64) (param $e i32) (param $f i64) (param $g f32) (param $h f64)
    (local $t32 i32) (local $t64 i64) (local $tf32 f32) (local $tf64 f64)
    i32.const 305419896 call $p32
    local.get $d local.get $h f64.div f32.demote_f64 local.get $c local.tee $tf32 drop local.get $tf32 f64.const 1 f32.demote_f64 f32.div f32.div f32.nearest call $pf32
    i64.const -1 drop i32.const 305419896 i32.const 65535 i32.const 1 i32.or i32.rem_u f32.convert_i32_u i32.const 31 i32.const 65535 i32.or local.tee $t32 drop local.get $t32 f32.convert_i32_u f32.div call $pf32
    f32.const -0 f32.const 0.5 f32.sub f32.nearest call $pf32
    i64.const -1 drop local.get $a local.get $a local.get $a select i32.const 0 i32.xor call $p32
    block (result f32) f32.const 1 f32.const -0 local.get $g local.get $e select f32.add f64.const 2.5 f64.const 0 f64.div f64.const -1e-10 f64.trunc f64.lt br_if 0 drop f32.const 1 f32.const 0.5 f32.add block (result f32) local.get $c local.get $a br_if 0 drop f32.const -1.5 end f32.div end call $pf32
    local.get $e call $p32
    block (result f32) local.get $a if (result f32) local.get $g else f32.const 1e10 local.get $c f32.div f64.const -1e-10 f32.demote_f64 f32.mul end i32.const 1 br_if 0 drop local.get $a if (result f64) f64.const 0 else local.get $h end local.get $d f64.ceil local.get $a i32.const 255 i32.shr_s select f32.demote_f64 end i32.const 65535 if (result i32) i32.const 65535 else local.get $e end i32.const 255 i32.const 305419896 i32.or i32.shl if (result f64) f32.const 3.25 f64.promote_f32 local.get $d f64.div else f32.const 1e10 local.get $g f32.div f64.promote_f32 end f32.demote_f64 f32.sub call $pf32
    local.get $d f64.const -1e-10 f64.sub f32.demote_f64 call $pf32
    f64.const 1e10 f64.const -1e-10 f64.mul i32.const 2 f64.convert_i32_s f64.div f32.const -1e-10 f32.nearest f64.promote_f32 i32.const 255 local.tee $t32 drop local.get $t32 if (result i32) i32.const 2 local.get $a i32.shr_s else i32.const 255 if (result i32) local.get $a else local.get $a end end select f64.const 2.5 f64.floor f64.const 1 local.get $c f64.promote_f32 f64.add f64.sub f64.div call $pf64
    block (result f64) f64.const 3.25 i32.const 31 if (result f64) local.get $h else f64.const 1e10 end f64.trunc i32.const 2147483647 i32.const 31 i32.const 1 i32.or i32.rem_u if (result f64) f64.const 16777217 else i64.const -1 drop f64.const -0 end f64.div f64.mul local.get $a local.get $a i32.shr_s if (result f64) local.get $d local.get $h f64.div else f64.const 3.25 local.get $h f64.div end f32.const -0 local.get $g f32.div f64.promote_f32 f64.ne i32.const 32 local.get $e if (result i32) i32.const 305419896 else i32.const 255 local.get $e i32.rotr end i32.mul i32.xor br_if 0 drop i64.const -1 drop local.get $d local.get $a f64.convert_i32_s f64.add local.tee $tf64 drop local.get $tf64 f64.const 1e10 f64.const -1e-10 f64.mul local.get $h f64.const -1e-10 f64.sub f64.div i64.const -9223372036854775808 i64.const 1 i64.shl f64.convert_i64_s f64.mul f64.div end call $pf64
    local.get $a call $p32
  )
  (func $main (export "main")
    i32.const 7 i64.const -3 f32.const 1.5 f64.const -2.25 i32.const -2147483648 i64.const 4294967301 f32.const 1e-3 f64.const 123456789.5 call $f
    i32.const -1 i64.const 9223372036854775807 f32.const -0 f64.const 0.1 i32.const 33 i64.const -9223372036854775808 f32.const 3.4e38 f64.const -1e300 call $f
  )
)
