(module
;;#prelude
  (func $main (export "main")
    i64.const -1 i64.popcnt call $p64
  )
)
