(module
;;#prelude
  (func $f (param $c i32) (result i32 i64)
    i64.const -1 drop
    local.get $c
    if (result i32 i64)
      i32.const 1 i64.const 2
    else
      i32.const 3 i64.const 4
    end)
  (func $main (export "main")
    i32.const 1 call $f call $p64 call $p32
    i32.const 0 call $f call $p64 call $p32
  )
)
