(module
;;#prelude
  (global $gd (mut f64) (f64.const 0))
  (func $main (export "main")
    global.get $gd i64.reinterpret_f64 call $p64
    f64.const -2.5 global.set $gd
    global.get $gd i64.reinterpret_f64 call $p64
  )
)
