(module
;;#prelude
  (func $a (param i32 i64) (result i32 i64 f32 f64 i32)
    local.get 0 local.get 1 f32.const 1.5 f64.const -2.5 local.get 0 i32.const 1 i32.add)
  (func $b (result i32 i32 i32) i32.const 1 i32.const 2 i32.const 3)
  (func $c (param f64 f64) (result f64 f64 f64) local.get 1 local.get 0 local.get 0 local.get 1 f64.add)
  (func $main (export "main")
    i64.const -1 i64.const -1 drop drop
    i32.const 41 i64.const -99 call $a
    call $p32 i64.reinterpret_f64 call $p64 i32.reinterpret_f32 call $p32 call $p64 call $p32
    call $b call $p32 call $p32 call $p32
    f64.const 1 f64.const 2 call $c i64.trunc_f64_s call $p64 i64.trunc_f64_s call $p64 i64.trunc_f64_s call $p64
    ;; nested: results feeding another call
    call $b i32.add i32.add call $p32
  )
)
