(module
;;#prelude
  (func $sieve (param $n i32) (result i32) (local $i i32) (local $j i32) (local $cnt i32)
    i32.const 0 i32.const 1 local.get $n memory.fill
    i32.const 2 local.set $i
    block $done
      loop $l
        local.get $i local.get $n i32.ge_u br_if $done
        local.get $i i32.load8_u
        if
          local.get $cnt i32.const 1 i32.add local.set $cnt
          local.get $i local.get $i i32.mul local.set $j
          block $d2
            loop $l2
              local.get $j local.get $n i32.ge_u br_if $d2
              local.get $j i32.const 0 i32.store8
              local.get $j local.get $i i32.add local.set $j
              br $l2
            end
          end
        end
        local.get $i i32.const 1 i32.add local.set $i
        br $l
      end
    end
    local.get $cnt)
  (func $lcg (param $s i64) (result i64) local.get $s i64.const 6364136223846793005 i64.mul i64.const 1442695040888963407 i64.add)
  (func $sort (param $base i32) (param $n i32) (local $i i32) (local $j i32) (local $key i64)
    i32.const 1 local.set $i
    block $done
      loop $l
        local.get $i local.get $n i32.ge_s br_if $done
        local.get $base local.get $i i32.const 3 i32.shl i32.add i64.load local.set $key
        local.get $i i32.const 1 i32.sub local.set $j
        block $d2
          loop $l2
            local.get $j i32.const 0 i32.lt_s br_if $d2
            local.get $base local.get $j i32.const 3 i32.shl i32.add i64.load local.get $key i64.le_s br_if $d2
            local.get $base local.get $j i32.const 3 i32.shl i32.add
            local.get $base local.get $j i32.const 3 i32.shl i32.add i64.load
            i64.store offset=8
            local.get $j i32.const 1 i32.sub local.set $j
            br $l2
          end
        end
        local.get $base local.get $j i32.const 3 i32.shl i32.add local.get $key i64.store offset=8
        local.get $i i32.const 1 i32.add local.set $i
        br $l
      end
    end)
  (func $main (export "main") (local $i i32) (local $s i64)
    i32.const 30000 call $sieve call $p32
    i64.const 42 local.set $s
    loop $l
      local.get $s call $lcg local.set $s
      i32.const 40000 local.get $i i32.const 3 i32.shl i32.add local.get $s i64.const 17 i64.shr_s i64.store
      local.get $i i32.const 1 i32.add local.tee $i i32.const 64 i32.lt_s br_if $l
    end
    i32.const 40000 i32.const 64 call $sort
    i32.const 40000 i64.load call $p64
    i32.const 40000 i64.load offset=8 call $p64
    i32.const 40000 i64.load offset=256 call $p64
    i32.const 40000 i64.load offset=504 call $p64
  )
)
