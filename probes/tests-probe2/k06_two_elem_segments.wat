(module
;;#prelude
  (type $t (func (result i32)))
  (table 2 funcref)
  (elem (i32.const 0) $a)
  (elem (i32.const 1) $b)
  (func $a (result i32) i32.const 11)
  (func $b (result i32) i32.const 22)
  (func $main (export "main")
    i32.const 0 call_indirect (type $t) call $p32
    i32.const 1 call_indirect (type $t) call $p32
  )
)
