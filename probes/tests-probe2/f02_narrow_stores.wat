(module
;;#prelude
  (func $dump (param $p i32) (local $i i32)
    loop $l
      local.get $p local.get $i i32.add i32.load8_u call $p32
      local.get $i i32.const 1 i32.add local.tee $i i32.const 16 i32.lt_u br_if $l
    end)
  (func $main (export "main") (local $a i32) (local $v i32) (local $w i64)
    i32.const 64 local.set $a
    i32.const -1412567295 local.set $v       ;; 0xABCDEF01
    i64.const 1311768467463790320 local.set $w ;; 0x123456789ABCDEF0
    local.get $a i64.const -1 i64.store
    local.get $a i64.const -1 i64.store offset=8
    i64.const -1 i64.const -1 drop drop
    local.get $a local.get $v i32.store8 offset=1
    local.get $a local.get $v i32.store16 offset=3
    local.get $a local.get $w i64.store8 offset=6
    local.get $a local.get $w i64.store16 offset=8
    local.get $a local.get $w i64.store32 offset=11
    i32.const 64 call $dump
    local.get $a local.get $v i32.store offset=1
    local.get $a local.get $w i64.store offset=7
    i32.const 64 call $dump
  )
)
