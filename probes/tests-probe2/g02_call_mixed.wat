(module
;;#prelude
  (func $f (param i32 f64 i64 f32 i32 f64 i64 f32 i32 f64 i64 f32 i32 f64 i64 f32 i32 f64 i64 f32) (result f64)
    local.get 0 f64.convert_i32_s
    local.get 1 f64.const 2 f64.mul f64.add
    local.get 2 f64.convert_i64_s f64.const 3 f64.mul f64.add
    local.get 3 f64.promote_f32 f64.const 4 f64.mul f64.add
    local.get 4 f64.convert_i32_s f64.const 5 f64.mul f64.add
    local.get 5 f64.const 6 f64.mul f64.add
    local.get 6 f64.convert_i64_s f64.const 7 f64.mul f64.add
    local.get 7 f64.promote_f32 f64.const 8 f64.mul f64.add
    local.get 8 f64.convert_i32_s f64.const 9 f64.mul f64.add
    local.get 9 f64.const 10 f64.mul f64.add
    local.get 10 f64.convert_i64_s f64.const 11 f64.mul f64.add
    local.get 11 f64.promote_f32 f64.const 12 f64.mul f64.add
    local.get 12 f64.convert_i32_s f64.const 13 f64.mul f64.add
    local.get 13 f64.const 14 f64.mul f64.add
    local.get 14 f64.convert_i64_s f64.const 15 f64.mul f64.add
    local.get 15 f64.promote_f32 f64.const 16 f64.mul f64.add
    local.get 16 f64.convert_i32_s f64.const 17 f64.mul f64.add
    local.get 17 f64.const 18 f64.mul f64.add
    local.get 18 f64.convert_i64_s f64.const 19 f64.mul f64.add
    local.get 19 f64.promote_f32 f64.const 20 f64.mul f64.add)
  (func $main (export "main")
    i32.const 1 f64.const 2 i64.const 3 f32.const 4 i32.const 5 f64.const 6 i64.const 7 f32.const 8 i32.const 9 f64.const 10
    i64.const 11 f32.const 12 i32.const 13 f64.const 14 i64.const 15 f32.const 16 i32.const 17 f64.const 18 i64.const 19 f32.const 20
    call $f i64.trunc_f64_s call $p64
  )
)
