(module
;;#prelude
  (func $f (result i64) (local i32) (local i64)
    i64.const 77 local.set 1 local.get 1)
  (func $main (export "main") call $f call $p64)
)
