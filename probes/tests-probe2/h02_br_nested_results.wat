(module
;;#prelude
  (func $f (param $k i32) (result i32)
    i32.const 1000
    block $a (result i32)
      i32.const 100
      block $b (result i32)
        i32.const 10
        block $c (result i32)
          local.get $k i32.const 0 i32.eq if i32.const 1 br $a end
          local.get $k i32.const 1 i32.eq if i32.const 2 br $b end
          local.get $k i32.const 2 i32.eq if i32.const 3 br $c end
          local.get $k i32.const 3 i32.eq if i32.const 7 i32.const 4 br $a end
          i32.const 5
        end
        i32.add
      end
      i32.add
    end
    i32.add)
  (func $g (param $k i32) (result f64) (local $t f64)
    f64.const 0.5
    block $a (result f64)
      i64.const -1
      block $b (result f64)
        f32.const 3
        block $c (result f64)
          f64.const 1.25 local.get $k i32.const 0 i32.eq br_if $a drop
          f64.const 2.25 local.get $k i32.const 1 i32.eq br_if $b drop
          f64.const 3.25 local.get $k i32.const 2 i32.eq br_if $c drop
          f64.const 4.25
        end
        f64.const 100 f64.add
        local.set $t drop local.get $t
      end
      f64.const 1000 f64.add
      local.set $t drop local.get $t
    end
    f64.add)
  (func $main (export "main") (local $i i32)
    loop $l
      local.get $i call $f call $p32
      local.get $i call $g i64.reinterpret_f64 call $p64
      local.get $i i32.const 1 i32.add local.tee $i i32.const 5 i32.lt_s br_if $l
    end
  )
)
