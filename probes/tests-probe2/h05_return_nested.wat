(module
;;#prelude
  (func $f (param $k i32) (result i64)
    i64.const 1
    block
      i32.const 5
      loop
        local.get $k i32.const 1 i32.eq if i64.const 9 i64.const 42 return end
        local.get $k i32.const 2 i32.eq if i64.const -43 return end
      end
      drop
    end
    drop
    i64.const 7)
  (func $g (param $k i32) (local $t i32)
    local.get $k i32.eqz if return end
    i32.const 71 call $print_rune i32.const 10 call $print_rune)
  (func $main (export "main")
    i32.const 0 call $f call $p64
    i32.const 1 call $f call $p64
    i32.const 2 call $f call $p64
    i32.const 0 call $g
    i32.const 1 call $g
  )
)
