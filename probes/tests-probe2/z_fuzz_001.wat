(module
;;#prelude

  (func $pf32 (param $v f32)
    local.get $v local.get $v f32.ne
    if i32.const -7777 call $p32 else local.get $v i32.reinterpret_f32 call $p32 end)
  (func $pf64 (param $v f64)
    local.get $v local.get $v f64.ne
    if i64.const -7777 call $p64 else local.get $v i64.reinterpret_f64 call $p64 end)
  (func $f (param $a i32) (param $b i64) (param $c f32) (param $d f64) (param $e i32) (param $f i64) (param $g f32) (param $h f64)
    (local $t32 i32) (local $t64 i64) (local $tf32 f32) (local $tf64 f64)
    local.get $d local.get $d local.get $a select f64.const 1 f64.ceil f64.gt local.get $a i32.sub call $p32
    i32.const 2147483647 f64.convert_i32_s block (result f64) f64.const 1 local.get $e br_if 0 drop local.get $d end f64.div f64.neg call $pf64
    local.get $a local.get $e i32.ge_u local.tee $t32 drop local.get $t32 f64.convert_i32_s f64.nearest call $pf64
    i64.const 63 local.get $b local.get $b i64.sub i64.rotr call $p64
    block (result f64) local.get $b i64.const 64 i64.add local.get $b local.get $b i64.const 1 i64.or i64.div_u local.get $e local.get $e i32.rotl select f64.convert_i64_s local.get $d f64.const 0.5 f64.ne i32.const 0 local.get $e i32.add i32.xor local.get $a if (result i32) local.get $a else local.get $a end i32.const 31 i32.const 65535 i32.shr_s i32.lt_u i32.mul br_if 0 drop local.get $b i64.const 64 i64.rotr i32.const 1 i64.extend_i32_u i64.shl f64.convert_i64_s end call $pf64
    local.get $d local.get $d local.get $d f64.div f64.const -1.5 f64.mul i32.const 2147483647 f64.convert_i32_s i32.const 0 if (result f64) local.get $h else local.get $h end local.get $e local.get $e i32.shr_s select f64.mul i32.const 1 f64.convert_i32_u local.get $d local.tee $tf64 drop local.get $tf64 f64.add local.get $b i64.const 63 i64.shl f64.convert_i64_s f64.add f64.mul f64.add call $pf64
    block (result i32) local.get $e local.get $b i64.eqz local.tee $t32 drop local.get $t32 br_if 0 drop i32.const -1 local.get $e i32.const -2147483648 select if (result i32) local.get $a i32.const -1 i32.eq else block (result i32) local.get $e i32.const 31 br_if 0 drop i32.const 65535 end end end call $p32
    i64.const -1 drop local.get $c f32.const 16777217 f32.div f64.promote_f32 call $pf64
    local.get $c f32.const 1e10 f32.add local.get $g f32.floor f32.mul f32.sqrt block (result f32) local.get $e f32.convert_i32_u f32.const 0.5 f32.nearest f32.mul i32.const 32 if (result i32) local.get $e else i32.const -1 end local.get $g local.get $c f32.gt i32.sub br_if 0 drop local.get $c f32.const 3.25 f32.sub local.get $g f32.const -1e-10 f32.div f32.mul end f32.add call $pf32
    i64.const -1 drop i64.const 81985529216486895 local.tee $t64 drop local.get $t64 i64.const 4294967296 i64.const 63 i64.rotl i64.mul local.get $b i64.const 64 local.get $a select local.tee $t64 drop local.get $t64 i64.const 64 i64.add i64.rotl call $p64
    block (result i32) i64.const -1 drop i64.const 64 local.get $b i64.shr_u i32.wrap_i64 local.get $e local.get $a i32.mul if (result i32) local.get $a i32.const -1 i32.and else local.get $a end local.tee $t32 drop local.get $t32 br_if 0 drop local.get $e if (result i32) i32.const 2 else local.get $a end i32.clz if (result i32) block (result i32) local.get $a i32.const 65535 i32.popcnt br_if 0 drop i32.const 0 i32.const -1 i32.xor end else local.get $b i64.const 63 i64.xor i64.eqz end end if (result f32) local.get $c f32.neg f32.const -1.5 f32.const 3.25 f32.add f32.add local.get $g f32.neg f32.trunc f32.sub f32.neg else local.get $c i64.const -1 drop local.get $c f32.const 1 f32.div local.get $a i32.const 2 i32.shl if (result i32) i32.const 255 else i32.const 31 i32.const 2147483647 i32.or end select f64.const 16777217 local.get $h f64.add f32.demote_f64 i64.const -1 drop i32.const 2147483647 f32.convert_i32_u f32.mul f32.sub end call $pf32
    i64.const -1 local.get $a if (result i64) local.get $b else local.get $b end i64.shl i64.const 81985529216486895 i64.const 63 i64.shr_u local.get $e i64.extend_i32_s i64.add i64.shr_s local.get $f local.get $f local.get $e select i64.const -1 i64.shl i32.const 0 if (result i64) local.get $b else i64.const 81985529216486895 end local.get $f local.get $f local.get $a select i64.sub i64.and i64.add call $p64
  )
  (func $main (export "main")
    i32.const 7 i64.const -3 f32.const 1.5 f64.const -2.25 i32.const -2147483648 i64.const 4294967301 f32.const 1e-3 f64.const 123456789.5 call $f
    i32.const -1 i64.const 9223372036854775807 f32.const -0 f64.const 0.1 i32.const 33 i64.const -9223372036854775808 f32.const 3.4e38 f64.const -1e300 call $f
  )
)
