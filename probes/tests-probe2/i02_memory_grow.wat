(module
;;#prelude
  (func $main (export "main") (local $d i32)
    memory.size call $p32
    i64.const -1 drop
    i32.const 0 memory.grow call $p32
    i32.const 1 local.set $d
    i64.const -1 drop
    local.get $d memory.grow call $p32
    memory.size call $p32
    i32.const 131068 i32.load call $p32        ;; fresh page is zero
    i32.const 131064 i64.const -2 i64.store
    i32.const 131064 i64.load call $p64
    i32.const 65536 i32.const 0 i32.const 16 memory.copy
    i32.const 3 memory.grow call $p32          ;; beyond max: -1
    memory.size call $p32
    i32.const 2 memory.grow call $p32
    memory.size call $p32
    i32.const 262140 i32.const 77 i32.store
    i32.const 262140 i32.load call $p32
    i32.const 1 memory.grow call $p32
    i32.const -1 memory.grow call $p32
    i32.const 65535 memory.grow call $p32
    i32.const 0 memory.grow call $p32
  )
)
