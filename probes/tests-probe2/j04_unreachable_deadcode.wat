(module
;;#prelude
  (func $f (param $c i32) (result i32)
    block (result i32)
      local.get $c if i32.const 5 return end
      i32.const 6 br 0
      i32.const 7 i32.add drop unreachable
    end)
  (func $g (param $c i32) (result i32)
    local.get $c
    if (result i32)
      i32.const 1 br 0
    else
      i32.const 2 return
    end
    i32.const 10 i32.add)
  (func $main (export "main")
    nop
    i32.const 1 call $f call $p32
    i32.const 0 call $f call $p32
    i32.const 1 call $g call $p32
    i32.const 0 call $g call $p32
    i32.const 3 call $p32
    unreachable
  )
)
