(module
;;#prelude
  (func $two (result i32 i32)
    i32.const 9 i32.const 1 i32.const 2 return)
  (func $two_br (result i32 i32)
    i32.const 9 i32.const 1 i32.const 2 br 0)
  (func $main (export "main")
    call $two call $p32 call $p32
    call $two_br call $p32 call $p32
    i32.const 9
    block (result i32 i32)
      i32.const 8 i32.const 1 i32.const 2 br 0
    end
    call $p32 call $p32 call $p32
  )
)
