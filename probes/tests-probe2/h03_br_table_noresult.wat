(module
;;#prelude
  (func $sw (param $k i32) (result i32) (local $r i32)
    i64.const -1 drop
    block $d
      block $c
        block $b
          block $a
            local.get $k
            br_table $a $b $c $b $d
          end
          i32.const 10 local.set $r br $d
        end
        i32.const 20 local.set $r br $d
      end
      i32.const 30 local.set $r
    end
    local.get $r)
  (func $lp (param $n i32) (result i32) (local $i i32) (local $s i32)
    block $out
      loop $top
        local.get $s local.get $i i32.add local.set $s
        local.get $i i32.const 1 i32.add local.set $i
        local.get $i local.get $n i32.ge_s
        br_table $top $out
      end
    end
    local.get $s)
  (func $main (export "main")
    i32.const 0 call $sw call $p32
    i32.const 1 call $sw call $p32
    i32.const 2 call $sw call $p32
    i32.const 3 call $sw call $p32
    i32.const 4 call $sw call $p32
    i32.const 5 call $sw call $p32
    i32.const -1 call $sw call $p32
    i32.const 2147483647 call $sw call $p32
    i32.const 10 call $lp call $p32
  )
)
