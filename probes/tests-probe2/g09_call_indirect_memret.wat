(module
;;#prelude
  (type $t (func (param i32 f32) (result i32 i32 f32 i64)))
  (table 1 funcref)
  (elem (i32.const 0) $f)
  (func $f (param i32 f32) (result i32 i32 f32 i64)
    local.get 0 local.get 0 i32.const 1 i32.add local.get 1 f32.const 2 f32.mul i64.const -5)
  (func $main (export "main")
    i32.const 7 f32.const 1.25 i32.const 0 call_indirect (type $t)
    call $p64 i32.reinterpret_f32 call $p32 call $p32 call $p32
  )
)
