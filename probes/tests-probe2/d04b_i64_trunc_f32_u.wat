(module
;;#prelude
  (func $main (export "main")
    f32.const 18000000000000000000 i64.trunc_f32_u call $p64)
)
