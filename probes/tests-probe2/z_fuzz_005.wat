(module
;;#prelude

  (func $pf32 (param $v f32)
    local.get $v local.get $v f32.ne
    if i32.const -7777 call $p32 else local.get $v i32.reinterpret_f32 call $p32 end)
  (func $pf64 (param $v f64)
    local.get $v local.get $v f64.ne
    if i64.const -7777 call $p64 else local.get $v i64.reinterpret_f64 call $p64 end)
  (func $f (param $a i32) (param $b i64) (param $c f32) (param $d f64) (param $e i32) (param $f i64) (param $g f32) (param $h f64)
    (local $t32 i32) (local $t64 i64) (local $tf32 f32) (local $tf64 f64)
    local.get $c call $pf32
    i64.const -1 drop i32.const 32 if (result f32) local.get $g else local.get $c f32.const -0 f32.add end local.get $g f32.abs local.get $d f32.demote_f64 f32.add local.get $b i32.wrap_i64 i32.const 305419896 i32.add select call $pf32
    i64.const -1 drop f32.const -1.5 call $pf32
    local.get $e call $p32
    i32.const 31 i64.const -1 drop local.get $g f32.const -1.5 f32.lt block (result i64) local.get $f i32.const 65535 br_if 0 drop local.get $b end i32.const 255 i64.extend_i32_s i64.lt_s i32.lt_u i32.const 1 i32.or i32.rem_u call $p32
    i64.const -1 drop local.get $b local.get $b i64.shr_s i64.const -4294967296 local.get $f i64.and i64.const 9223372036854775807 i64.const 81985529216486895 i64.and i64.mul i64.xor f32.convert_i64_s call $pf32
    i32.const 255 i32.const 1 i32.const 2147483647 select local.tee $t32 drop local.get $t32 if (result i64) i64.const -1 drop local.get $e i64.extend_i32_u else local.get $b local.get $b local.get $b i32.const 0 select i64.sub end f32.convert_i64_s call $pf32
    local.get $b local.get $f i64.sub local.get $b local.get $b local.get $a select i64.xor local.get $e local.get $e i32.shr_s i64.extend_i32_u i64.add call $p64
    local.get $b call $p64
    local.get $h call $pf64
    local.get $a if (result f32) f32.const 1e10 else local.get $c end local.get $g f32.mul i32.const 255 f32.convert_i32_u f32.const 3.25 f32.floor f32.div f32.add call $pf32
    local.get $f i64.const 81985529216486895 i64.rotr local.get $b i64.const 64 i64.and i64.add call $p64
  )
  (func $main (export "main")
    i32.const 7 i64.const -3 f32.const 1.5 f64.const -2.25 i32.const -2147483648 i64.const 4294967301 f32.const 1e-3 f64.const 123456789.5 call $f
    i32.const -1 i64.const 9223372036854775807 f32.const -0 f64.const 0.1 i32.const 33 i64.const -9223372036854775808 f32.const 3.4e38 f64.const -1e300 call $f
  )
)
