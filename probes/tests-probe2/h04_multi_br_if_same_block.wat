(module
;;#prelude
  (func $cls (param $x i32) (result i32)
    block $b (result i32)
      i32.const 1 local.get $x i32.const 10 i32.lt_s br_if $b drop
      i32.const 2 local.get $x i32.const 20 i32.lt_s br_if $b drop
      i32.const 3 local.get $x i32.const 30 i32.lt_s br_if $b drop
      i32.const 4
    end)
  (func $main (export "main")
    i32.const 5 call $cls call $p32
    i32.const 15 call $cls call $p32
    i32.const 25 call $cls call $p32
    i32.const 35 call $cls call $p32
  )
)
