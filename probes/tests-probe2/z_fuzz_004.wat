(module
;;#prelude

  (func $pf32 (param $v f32)
    local.get $v local.get $v f32.ne
    if i32.const -7777 call $p32 else local.get $v i32.reinterpret_f32 call $p32 end)
  (func $pf64 (param $v f64)
    local.get $v local.get $v f64.ne
    if i64.const -7777 call $p64 else local.get $v i64.reinterpret_f64 call $p64 end)
  (func $f (param $a i32) (param $b i64) (param $c f32) (param $d f64) (param $e i32) (param $f i64) (param $g f32) (param $h f64)
    (local $t32 i32) (local $t64 i64) (local $tf32 f32) (local $tf64 f64)
    f64.const -1.5 f64.const 16777217 f64.div i32.const 32 f64.convert_i32_u f64.lt f32.convert_i32_u f32.const 1e10 f32.mul call $pf32
    block (result i64) i64.const 0 local.get $f i64.sub local.get $b i32.wrap_i64 br_if 0 drop i64.const 81985529216486895 i64.const -1 i64.const 1 i64.or i64.div_u end local.get $e i64.extend_i32_s local.get $f i64.const -1 i64.xor i64.const -1 i64.const 64 i64.lt_u select i64.const -1 drop i32.const 1 local.get $a i32.mul select i32.wrap_i64 call $p32
    block (result f32) local.get $g i32.const -1 br_if 0 drop local.get $a f32.convert_i32_u end call $pf32
    block (result f64) f64.const -0 i32.const 0 br_if 0 drop local.get $h end f64.const 1 f64.sub f32.demote_f64 call $pf32
    local.get $f i64.const -1 i64.add f64.convert_i64_s f32.demote_f64 call $pf32
    local.get $f call $p64
    block (result i32) local.get $c f32.const 0.5 f32.lt i32.const 0 i32.clz br_if 0 drop local.get $a local.get $a i32.or end i32.const 305419896 local.get $e i32.xor local.get $e if (result i32) i32.const 31 else i32.const 305419896 end i32.const 1 i32.or i32.rem_u i32.const 1 i32.or i32.rem_u f32.convert_i32_u call $pf32
    f32.const -0 call $pf32
    i64.const 81985529216486895 local.get $f i64.sub local.get $a i64.extend_i32_u i64.or call $p64
    f64.const 0 local.get $d f64.mul local.get $d f64.const 3.25 f64.mul local.get $f i32.wrap_i64 select call $pf64
    i64.const -1 drop f64.const 1e10 local.get $h f64.add call $pf64
    local.get $g f32.trunc call $pf32
  )
  (func $main (export "main")
    i32.const 7 i64.const -3 f32.const 1.5 f64.const -2.25 i32.const -2147483648 i64.const 4294967301 f32.const 1e-3 f64.const 123456789.5 call $f
    i32.const -1 i64.const 9223372036854775807 f32.const -0 f64.const 0.1 i32.const 33 i64.const -9223372036854775808 f32.const 3.4e38 f64.const -1e300 call $f
  )
)
