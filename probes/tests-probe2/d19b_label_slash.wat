(module
;;#prelude
  (func $main (export "main")
    block $l/1 i32.const 1 br_if $l/1 i32.const 65 call $print_rune end
    i32.const 66 call $print_rune)
)
