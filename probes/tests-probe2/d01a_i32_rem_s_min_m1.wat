(module
;;#prelude
  (func $main (export "main")
    i32.const -2147483648 i32.const -1 i32.rem_s call $p32)
)
