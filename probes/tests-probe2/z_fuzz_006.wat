(module
;;#prelude

  (func $pf32 (param $v f32)
    local.get $v local.get $v f32.ne
    if i32.const -7777 call $p32 else local.get $v i32.reinterpret_f32 call $p32 end)
  (func $pf64 (param $v f64)
    local.get $v local.get $v f64.ne
    if i64.const -7777 call $p64 else local.get $v i64.reinterpret_f64 call $p64 end)
  (func $f (param $a i32) (param $b i64) (param $c f32) (param $d f64) (param $e i32) (param $f i64) (param $g f32) (param $h f64)
    (local $t32 i32) (local $t64 i64) (local $tf32 f32) (local $tf64 f64)
    i32.const 31 i32.const 0 i32.rotl if (result i64) i64.const 9223372036854775807 local.tee $t64 drop local.get $t64 else i64.const -1 local.get $b i64.or end local.get $f i64.const -9223372036854775808 i64.xor i32.const 305419896 i64.extend_i32_u i64.or i64.add i32.wrap_i64 call $p32
    local.get $e if (result i64) local.get $b else local.get $b end local.tee $t64 drop local.get $t64 call $p64
    local.get $d local.get $h f64.gt i64.extend_i32_u i64.const 0 local.get $b i64.rotr local.get $f local.get $b i64.const 1 i64.or i64.div_u i64.shr_s i32.const 255 i32.const 305419896 i32.and i32.const 2 local.get $e i32.const 1 i32.or i32.rem_u i32.or select call $p64
    local.get $b f32.convert_i64_s f32.floor i64.const -1 f32.convert_i64_s f32.ne local.get $e i32.const 32 local.get $e i32.const 1 i32.or i32.rem_u i32.shl local.get $a i32.shr_u i32.add call $p32
    local.get $d local.get $h f64.div i32.const 32 if (result f64) f64.const 1 else f64.const 0 end f64.le call $p32
    local.get $e call $p32
    block (result i32) local.get $g f32.const -0 f32.ge i32.const 31 local.get $a i32.shl br_if 0 drop local.get $e i32.const 1 i32.const 1 i32.or i32.rem_u end local.get $a i32.const 31 i32.const 1 i32.or i32.rem_u local.get $d f64.const -1e-10 f64.gt i32.rotr i32.const 1 i32.or i32.rem_u local.get $e i32.const 2 i32.rotl i32.const 31 local.get $a i32.shr_s i32.shl i64.const -9223372036854775808 local.get $f i64.rotl i32.wrap_i64 i32.xor i32.const 1 i32.or i32.rem_u if (result f32) i64.const 64 i64.const -9223372036854775808 i64.lt_u f64.const 1e10 local.get $d f64.le i32.and if (result i32) local.get $b local.get $b i64.rotl i32.const 305419896 i64.extend_i32_s i64.ne else i32.const 2 end if (result f32) f32.const 2.5 else i32.const 255 f32.convert_i32_u f32.floor local.get $a local.tee $t32 drop local.get $t32 if (result f32) local.get $c else f32.const 0.5 end f32.add end else i64.const 4294967296 i32.const 65535 if (result i64) local.get $f local.get $f i64.and else block (result i64) local.get $f i32.const 1 br_if 0 drop local.get $b end end i64.lt_u f32.convert_i32_u end call $pf32
    i32.const -1 f64.convert_i32_s f64.neg f64.floor call $pf64
    i64.const 63 i32.wrap_i64 local.get $a i32.const 31 i32.or i32.shl if (result f64) block (result f64) i32.const 2 if (result f64) f64.const 3.25 else f64.const -1e-10 end i32.const 255 i32.const 32 i32.add br_if 0 drop local.get $f f64.convert_i64_s end else local.get $a if (result i32) local.get $a else i32.const 32 end f64.convert_i32_s end f64.trunc call $pf64
    f32.const 0 f64.promote_f32 local.get $d f64.sub call $pf64
    i32.const 305419896 local.get $a i32.const 0 select if (result f32) local.get $c f32.nearest else local.get $c f32.trunc end call $pf32
    local.get $g f32.const 1 f32.div local.get $g local.get $g f32.div f32.sub local.tee $tf32 drop local.get $tf32 f32.const -0 local.get $g local.get $e select local.get $c local.get $g f32.div f32.div local.get $g f32.const 1e10 local.get $a select f64.const 2.5 f32.demote_f64 f32.mul f32.sub f32.ge call $p32
  )
  (func $main (export "main")
    i32.const 7 i64.const -3 f32.const 1.5 f64.const -2.25 i32.const -2147483648 i64.const 4294967301 f32.const 1e-3 f64.const 123456789.5 call $f
    i32.const -1 i64.const 9223372036854775807 f32.const -0 f64.const 0.1 i32.const 33 i64.const -9223372036854775808 f32.const 3.4e38 f64.const -1e300 call $f
  )
)
