(module
;;#prelude
  (type $t (func (result i32)))
  (table 4 funcref)
  (elem (i32.const 1) $a $b)
  (func $a (result i32) i32.const 11)
  (func $b (result i32) i32.const 22)
  (func $main (export "main")
    i32.const 1 call_indirect (type $t) call $p32
    i32.const 2 call_indirect (type $t) call $p32
  )
)
