(module
;;#prelude
  (func $main (export "main")
    f64.const 0 f64.const -0 f64.max i64.reinterpret_f64 call $p64)
)
