(module
;;#prelude
  (func $f (param $c i32) (result i32 i32)
    block $o (result i32 i32)
      i32.const 100
      block $i (result i32 i32)
        i32.const 1 i32.const 2 local.get $c br_if $o
      end
      i32.add i32.add i32.const 50
    end)
  (func $main (export "main")
    i32.const 1 call $f call $p32 call $p32
    i32.const 0 call $f call $p32 call $p32
  )
)
