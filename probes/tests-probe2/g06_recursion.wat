(module
;;#prelude
  (func $fib (param i32) (result i64)
    local.get 0 i32.const 2 i32.lt_s
    if (result i64)
      local.get 0 i64.extend_i32_s
    else
      local.get 0 i32.const 1 i32.sub call $fib
      local.get 0 i32.const 2 i32.sub call $fib
      i64.add
    end)
  (func $fact (param f64) (result f64)
    local.get 0 f64.const 1 f64.le
    if (result f64) f64.const 1 else local.get 0 local.get 0 f64.const 1 f64.sub call $fact f64.mul end)
  (func $even (param i32) (result i32)
    local.get 0 i32.eqz if (result i32) i32.const 1 else local.get 0 i32.const 1 i32.sub call $odd end)
  (func $odd (param i32) (result i32)
    local.get 0 i32.eqz if (result i32) i32.const 0 else local.get 0 i32.const 1 i32.sub call $even end)
  (func $main (export "main")
    i32.const 20 call $fib call $p64
    f64.const 15 call $fact i64.trunc_f64_s call $p64
    i32.const 1001 call $even call $p32
    i32.const 1000 call $even call $p32
  )
)
