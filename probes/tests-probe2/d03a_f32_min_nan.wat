(module
;;#prelude
  (func $main (export "main")
    f32.const 0 f32.const 0 f32.div   ;; NaN
    f32.const 1 f32.min
    f32.const 1 f32.eq call $p32)      ;; min(NaN,1) == 1 ?  wasm: 0
)
