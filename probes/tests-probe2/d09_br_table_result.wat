(module
;;#prelude
  (func $main (export "main")
    block (result i32) i32.const 10 i32.const 0 br_table 0 0 end
    call $p32)
)
