(module
;;#prelude
  (func $a:b (result i32) i32.const 1)
  (func $a<b> (result i32) i32.const 2)
  (func $a=b (result i32) i32.const 3)
  (func $a+b (result i32) i32.const 4)
  (func $main (export "main")
    call $a:b call $p32
    call $a<b> call $p32
    call $a=b call $p32
    call $a+b call $p32)
)
