(module
;;#prelude
  (func $main (export "main")
    block (result i32 i32) i32.const 9 i32.const 1 i32.const 2 br 0 end
    call $p32 call $p32)
)
