(module
;;#prelude
  (func $f (param i32 i64 i32 i64 i32 i64 i32 i64 i32 i64) (result i64)
    local.get 0 i64.extend_i32_s
    local.get 1 i64.const 3 i64.mul i64.add
    local.get 2 i64.extend_i32_s i64.const 5 i64.mul i64.add
    local.get 3 i64.const 7 i64.mul i64.add
    local.get 4 i64.extend_i32_s i64.const 11 i64.mul i64.add
    local.get 5 i64.const 13 i64.mul i64.add
    local.get 6 i64.extend_i32_s i64.const 17 i64.mul i64.add
    local.get 7 i64.const 19 i64.mul i64.add
    local.get 8 i64.extend_i32_s i64.const 23 i64.mul i64.add
    local.get 9 i64.const 29 i64.mul i64.add)
  (func $main (export "main")
    i32.const -1 i64.const 2 i32.const -3 i64.const 4 i32.const -5 i64.const 6 i32.const -7 i64.const 8000000000 i32.const -9 i64.const -10000000000
    call $f call $p64
  )
)
