(module
;;#prelude
  (func $main (export "main")
    block $my-block
      i32.const 1 br_if $my-block
      i32.const 65 call $print_rune
    end
    i32.const 66 call $print_rune)
)
