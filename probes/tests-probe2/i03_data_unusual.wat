(module
;;#prelude
  (data (i32.const 8) "\00\01\7f\80\ff\"\\\n\t\r'A%s%d\\x41")
  (data (i32.const 40) "abc")
  (data (i32.const 41) "XY")
  (data (i32.const 65533) "end")
  (data (i32.const 100) "")
  (data (i32.const 104) "\e4\b8\ad\u{6587}")
  (func $main (export "main") (local $i i32)
    loop $l
      local.get $i i32.load8_u offset=8 call $p32
      local.get $i i32.const 1 i32.add local.tee $i i32.const 24 i32.lt_u br_if $l
    end
    i32.const 40 i32.const 4 call $print_str i32.const 10 call $print_rune
    i32.const 65533 i32.const 3 call $print_str i32.const 10 call $print_rune
    i32.const 104 i64.load call $p64
  )
)
