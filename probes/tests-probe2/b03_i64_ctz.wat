(module
;;#prelude
  (func $main (export "main")
    i64.const 256 i64.ctz call $p64
  )
)
