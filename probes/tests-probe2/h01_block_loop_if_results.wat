(module
;;#prelude
  (func $sum (param $n i32) (result i64) (local $i i32) (local $acc i64)
    block $done
      loop $l
        local.get $i local.get $n i32.ge_s br_if $done
        local.get $acc local.get $i i64.extend_i32_s i64.add local.set $acc
        local.get $i i32.const 1 i32.add local.set $i
        br $l
      end
    end
    local.get $acc)
  (func $loopres (param $n i32) (result i32) (local $i i32)
    loop $l (result i32)
      local.get $i i32.const 1 i32.add local.tee $i
      local.get $n i32.lt_s br_if $l
      local.get $i i32.const 1000 i32.add
    end)
  (func $ifres (param $c i32) (result f64)
    i64.const -1 drop
    local.get $c
    if (result f64) f64.const 1.5 else f64.const -2.5 end)
  (func $ifnoelse (param $c i32) (result i32) (local $r i32)
    i32.const 5 local.set $r
    local.get $c if i32.const 9 local.set $r end
    local.get $r)
  (func $nested (param $a i32) (param $b i32) (result i32)
    local.get $a
    if (result i32)
      local.get $b if (result i32) i32.const 11 else i32.const 10 end
    else
      local.get $b if (result i32) i32.const 1 else i32.const 0 end
    end)
  (func $blockres (result i64)
    i64.const 100
    block (result i64) i64.const 7 end
    i64.add)
  (func $main (export "main")
    i32.const 100 call $sum call $p64
    i32.const 0 call $sum call $p64
    i32.const 5 call $loopres call $p32
    i32.const 1 call $ifres i64.reinterpret_f64 call $p64
    i32.const 0 call $ifres i64.reinterpret_f64 call $p64
    i32.const 256 call $ifres i64.reinterpret_f64 call $p64
    i32.const 0 call $ifnoelse call $p32
    i32.const -1 call $ifnoelse call $p32
    i32.const 1 i32.const 1 call $nested call $p32
    i32.const 1 i32.const 0 call $nested call $p32
    i32.const 0 i32.const 1 call $nested call $p32
    i32.const 0 i32.const 0 call $nested call $p32
    call $blockres call $p64
  )
)
