(module
;;#prelude

  (func $pf32 (param $v f32)
    local.get $v local.get $v f32.ne
    if i32.const -7777 call $p32 else local.get $v i32.reinterpret_f32 call $p32 end)
  (func $pf64 (param $v f64)
    local.get $v local.get $v f64.ne
    if i64.const -7777 call $p64 else local.get $v i64.reinterpret_f64 call $p64 end)
  (func $nan32 (result f32) f32.const 0 f32.const 0 f32.div)
  (func $nan64 (result f64) f64.const 0 f64.const 0 f64.div)
  (func $inf32 (result f32) f32.const 1 f32.const 0 f32.div)
  (func $inf64 (result f64) f64.const 1 f64.const 0 f64.div)
  (func $op (param $a i32) (result f32)
    i64.const -1 i64.const -1 i64.const -1 drop drop drop
    local.get $a f32.convert_i32_s)
  (func $main (export "main")
    i32.const 0 call $op call $pf32
    i32.const 1 call $op call $pf32
    i32.const -1 call $op call $pf32
    i32.const 2 call $op call $pf32
    i32.const 7 call $op call $pf32
    i32.const -7 call $op call $pf32
    i32.const 31 call $op call $pf32
    i32.const 32 call $op call $pf32
    i32.const 33 call $op call $pf32
    i32.const 2147483647 call $op call $pf32
    i32.const -2147483648 call $op call $pf32
    i32.const 305419896 call $op call $pf32
    i32.const -559038737 call $op call $pf32
    i32.const 65535 call $op call $pf32
    i32.const 255 call $op call $pf32
    i32.const 128 call $op call $pf32
    i32.const -128 call $op call $pf32
    i32.const 16777217 call $op call $pf32
    i32.const -16777217 call $op call $pf32
    i32.const 33554435 call $op call $pf32
  )
)
