(module
;;#prelude
  (func $main (export "main")
    f32.const 0 f32.const 0 f32.div i32.trunc_f32_s call $p32
    f64.const 1e30 i32.trunc_f64_s call $p32
    i32.const 67 call $print_rune
  )
)
