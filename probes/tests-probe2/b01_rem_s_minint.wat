(module
;;#prelude
  (func $main (export "main")
    i32.const -2147483648 i32.const -1 i32.rem_s call $p32
    i64.const -9223372036854775808 i64.const -1 i64.rem_s call $p64
  )
)
