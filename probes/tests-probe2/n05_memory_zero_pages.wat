(module
  (import "syscall_linux" "print_i64" (func $print_i64 (param i64)))
  (import "syscall_linux" "print_rune" (func $print_rune (param i32)))
  (memory 0 2)
  (func $p32 (param $v i32) local.get $v i64.extend_i32_s call $print_i64 i32.const 10 call $print_rune)
  (func $main (export "main")
    memory.size call $p32
    i32.const 1 memory.grow call $p32
    i32.const 100 i32.const 7 i32.store
    i32.const 100 i32.load call $p32
    memory.size call $p32
  )
)
