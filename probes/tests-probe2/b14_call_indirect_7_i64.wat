(module
;;#prelude
  (type $t7 (func (param i64 i64 i64 i64 i64 i64 i64 i64) (result i64)))
  (table 2 funcref)
  (elem (i32.const 0) $f $f)
  (func $f (param i64 i64 i64 i64 i64 i64 i64 i64) (result i64)
    local.get 6 i64.const 1000 i64.mul local.get 7 i64.add)
  (func $main (export "main")
    i64.const 1 i64.const 2 i64.const 3 i64.const 4 i64.const 5 i64.const 6 i64.const 7 i64.const 8
    i32.const 0 call_indirect (type $t7) call $p64
    i64.const 1 i64.const 2 i64.const 3 i64.const 4 i64.const 5 i64.const 6 i64.const 7 i64.const 8
    call $f call $p64
  )
)
