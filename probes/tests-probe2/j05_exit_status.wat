(module
;;#prelude
  (func $main (export "main")
    i32.const 65 call $print_rune
    i32.const 300 call $proc_exit
    i32.const 66 call $print_rune
  )
)
