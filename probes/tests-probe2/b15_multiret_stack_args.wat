(module
;;#prelude
  (func $f (param i64 i64 i64 i64 i64 i64 i64) (result i64 i64 i64)
    local.get 5 local.get 6 local.get 0)
  (func $main (export "main")
    i64.const 1 i64.const 2 i64.const 3 i64.const 4 i64.const 5 i64.const 6 i64.const 7
    call $f call $p64 call $p64 call $p64
  )
)
