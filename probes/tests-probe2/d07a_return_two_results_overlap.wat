(module
;;#prelude
  (func $two (result i32 i32) i32.const 9 i32.const 1 i32.const 2 return)
  (func $main (export "main") call $two call $p32 call $p32)
)
