(module
;;#prelude

  (func $pf32 (param $v f32)
    local.get $v local.get $v f32.ne
    if i32.const -7777 call $p32 else local.get $v i32.reinterpret_f32 call $p32 end)
  (func $pf64 (param $v f64)
    local.get $v local.get $v f64.ne
    if i64.const -7777 call $p64 else local.get $v i64.reinterpret_f64 call $p64 end)
  (func $nan32 (result f32) f32.const 0 f32.const 0 f32.div)
  (func $nan64 (result f64) f64.const 0 f64.const 0 f64.div)
  (func $inf32 (result f32) f32.const 1 f32.const 0 f32.div)
  (func $inf64 (result f64) f64.const 1 f64.const 0 f64.div)
  (func $op (param $a i64) (result f64)
    i64.const -1 i64.const -1 i64.const -1 drop drop drop
    local.get $a f64.reinterpret_i64)
  (func $main (export "main")
    i64.const 0 call $op call $pf64
    i64.const 1 call $op call $pf64
    i64.const -9223372036854775808 call $op call $pf64
    i64.const 4607182418800017408 call $op call $pf64
    i64.const 9218868437227405312 call $op call $pf64
  )
)
