(module
;;#prelude
  (func $main (export "main") (local $f f32) (local $d f64)
    i32.const 2143289345 f32.reinterpret_i32 local.set $f        ;; 0x7fc00001
    i64.const 9218868437227405313 f64.reinterpret_i64 local.set $d ;; 0x7ff0000000000001 (sNaN)
    local.get $f f32.neg i32.reinterpret_f32 call $p32
    local.get $f f32.neg f32.abs i32.reinterpret_f32 call $p32
    local.get $f f32.const -1 f32.copysign i32.reinterpret_f32 call $p32
    f32.const 1 local.get $f f32.neg f32.copysign i32.reinterpret_f32 call $p32
    local.get $d f64.neg i64.reinterpret_f64 call $p64
    local.get $d f64.neg f64.abs i64.reinterpret_f64 call $p64
    local.get $d f64.const -1 f64.copysign i64.reinterpret_f64 call $p64
    i32.const 2139095041 f32.reinterpret_i32 local.tee $f i32.reinterpret_f32 call $p32  ;; sNaN through local
    i32.const 8 local.get $f f32.store i32.const 8 f32.load i32.reinterpret_f32 call $p32
    i32.const 8 i32.load call $p32
    local.get $f local.get $f i32.const 1 select i32.reinterpret_f32 call $p32
    i32.const 16 local.get $d f64.store i32.const 16 f64.load i64.reinterpret_f64 call $p64
  )
)
