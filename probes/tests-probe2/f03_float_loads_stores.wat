(module
;;#prelude
  (func $main (export "main") (local $a i32)
    i32.const 40 local.set $a
    local.get $a f32.const -1.5 f32.store offset=3
    local.get $a f64.const 2.718281828459045 f64.store offset=9
    i64.const -1 i64.const -1 drop drop
    local.get $a i32.load offset=3 call $p32
    local.get $a i64.load offset=9 call $p64
    local.get $a f32.load offset=3 i32.reinterpret_f32 call $p32
    local.get $a f64.load offset=9 i64.reinterpret_f64 call $p64
    local.get $a f32.load offset=3 f64.promote_f32 local.get $a f64.load offset=9 f64.mul i64.reinterpret_f64 call $p64
    ;; end of first page
    i32.const 0 i64.const 81985529216486895 i64.store offset=65528
    i32.const 65528 i64.load call $p64
    i32.const 65500 i32.load16_u offset=34 call $p32
    i32.const 65535 i32.load8_u call $p32
  )
)
