(module
;;#prelude
  (func $main (export "main")
    block i32.const 3 br_table 0 end
    i32.const 66 call $print_rune)
)
