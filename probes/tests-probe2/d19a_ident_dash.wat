(module
;;#prelude
  (func $add-one (param i32) (result i32) local.get 0 i32.const 1 i32.add)
  (func $main (export "main") i32.const 5 call $add-one call $p32)
)
