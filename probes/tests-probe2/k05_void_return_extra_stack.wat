(module
;;#prelude
  (func $f (param $c i32)
    i32.const 1 i64.const 2
    local.get $c if i32.const 88 call $print_rune return end
    local.get $c i32.eqz br_if 0
    drop drop)
  (func $main (export "main")
    i32.const 1 call $f
    i32.const 0 call $f
    i32.const 10 call $print_rune
  )
)
