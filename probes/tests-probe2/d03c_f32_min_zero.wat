(module
;;#prelude
  (func $main (export "main")
    f32.const -0 f32.const 0 f32.min i32.reinterpret_f32 call $p32)
)
