(module
;;#prelude
  (type $ft (func (result i32)))
  (table 4 funcref)
  (elem (i32.const 0) $a $b)
  (func $a (result i32) i32.const 11)
  (func $b (result i32) i32.const 22)
  (func $main (export "main")
    ;; table[2] = table[1]; table[3] = table[0]
    i32.const 2 i32.const 1 table.get 0 table.set 0
    i32.const 3 i32.const 0 table.get 0 table.set 0
    i32.const 2 call_indirect (type $ft) call $p32
    i32.const 3 call_indirect (type $ft) call $p32
  )
)
