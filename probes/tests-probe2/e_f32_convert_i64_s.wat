(module
;;#prelude

  (func $pf32 (param $v f32)
    local.get $v local.get $v f32.ne
    if i32.const -7777 call $p32 else local.get $v i32.reinterpret_f32 call $p32 end)
  (func $pf64 (param $v f64)
    local.get $v local.get $v f64.ne
    if i64.const -7777 call $p64 else local.get $v i64.reinterpret_f64 call $p64 end)
  (func $nan32 (result f32) f32.const 0 f32.const 0 f32.div)
  (func $nan64 (result f64) f64.const 0 f64.const 0 f64.div)
  (func $inf32 (result f32) f32.const 1 f32.const 0 f32.div)
  (func $inf64 (result f64) f64.const 1 f64.const 0 f64.div)
  (func $op (param $a i64) (result f32)
    i64.const -1 i64.const -1 i64.const -1 drop drop drop
    local.get $a f32.convert_i64_s)
  (func $main (export "main")
    i64.const 0 call $op call $pf32
    i64.const 1 call $op call $pf32
    i64.const -1 call $op call $pf32
    i64.const 2 call $op call $pf32
    i64.const 7 call $op call $pf32
    i64.const -7 call $op call $pf32
    i64.const 63 call $op call $pf32
    i64.const 64 call $op call $pf32
    i64.const 65 call $op call $pf32
    i64.const 31 call $op call $pf32
    i64.const 32 call $op call $pf32
    i64.const 9223372036854775807 call $op call $pf32
    i64.const -9223372036854775808 call $op call $pf32
    i64.const 4294967296 call $op call $pf32
    i64.const -4294967296 call $op call $pf32
    i64.const 4294967295 call $op call $pf32
    i64.const 81985529216486895 call $op call $pf32
    i64.const -2401053088876216593 call $op call $pf32
    i64.const 2147483648 call $op call $pf32
    i64.const 16777217 call $op call $pf32
    i64.const 9007199254740993 call $op call $pf32
    i64.const -9007199254740993 call $op call $pf32
    i64.const 1125899973951489 call $op call $pf32
  )
)
