(module
;;#prelude
  (func $main (export "main")
    block $o (result i32 i32)
      i32.const 9
      block (result i32 i32) i32.const 1 i32.const 2 i32.const 1 br_if $o end
      drop drop drop i32.const 7 i32.const 8
    end
    call $p32 call $p32)
)
