(module
;;#prelude
  (data (i32.const 0) "0123456789ABCDEF")
  (func $show i32.const 0 i32.const 16 call $print_str i32.const 10 call $print_rune)
  (func $main (export "main") (local $d i32) (local $s i32) (local $n i32)
    call $show
    i32.const 2 local.set $d i32.const 0 local.set $s i32.const 8 local.set $n
    i64.const -1 i64.const -1 i64.const -1 drop drop drop
    local.get $d local.get $s local.get $n memory.copy   ;; forward overlap (dst > src)
    call $show
    i32.const 0 i32.const 3 i32.const 10 memory.copy     ;; backward overlap (dst < src)
    call $show
    i32.const 5 i32.const 5 i32.const 4 memory.copy      ;; same
    i32.const 1 i32.const 9 i32.const 0 memory.copy      ;; len 0
    call $show
    i32.const 4 i32.const 1144 i32.const 5 memory.fill   ;; 1144 & 0xff = 'x'
    call $show
    i32.const 0 i32.const 45 i32.const 0 memory.fill
    i32.const 15 i32.const 33 i32.const 1 memory.fill
    call $show
    i32.const 65536 i32.const 0 i32.const 0 memory.fill  ;; at the very end, len 0
    i32.const 65535 i32.const 0 i32.const 1 memory.copy
    i32.const 65535 i32.load8_u call $p32
  )
)
