(module
;;#prelude

  (func $pf32 (param $v f32)
    local.get $v local.get $v f32.ne
    if i32.const -7777 call $p32 else local.get $v i32.reinterpret_f32 call $p32 end)
  (func $pf64 (param $v f64)
    local.get $v local.get $v f64.ne
    if i64.const -7777 call $p64 else local.get $v i64.reinterpret_f64 call $p64 end)
  (func $f (param $a i32) (param $b i64) (param $c f32) (param $d f64) (param $e i32) (param $f i64) (param $g f32) (param $h f64)
    (local $t32 i32) (local $t64 i64) (local $tf32 f32) (local $tf64 f64)
    local.get $a call $p32
    local.get $b i64.const 1 i64.lt_u local.tee $t32 drop local.get $t32 i32.const -2147483648 local.tee $t32 drop local.get $t32 i32.const -2147483648 local.get $a local.get $a select local.get $a local.tee $t32 drop local.get $t32 select i32.ne if (result i32) local.get $e i32.const 0 i32.or local.get $e local.get $e i32.const 1 i32.or i32.rem_u local.get $a i32.const 2 i32.ge_u select local.get $a local.get $a local.tee $t32 drop local.get $t32 local.get $e local.tee $t32 drop local.get $t32 select i32.shl else local.get $e local.get $e i32.const 2 select local.get $a local.get $e i32.rotr i32.const 0 local.get $a i32.const 1 select select i64.const -1 drop i32.const -1 i32.const 31 i32.and i32.rotl end call $p32
    local.get $e local.get $c local.get $g f32.eq local.get $e local.tee $t32 drop local.get $t32 i32.le_u i64.const -1 drop i32.const 2 local.get $e i32.shr_s select call $p32
    local.get $f local.get $e local.get $e i32.and local.get $d f64.const 0 f64.lt i32.shr_u i32.const 0 i32.const 0 i32.or i32.const 305419896 local.get $e i32.shr_u i32.rotl i32.mul i64.extend_i32_s i64.le_s call $p32
    local.get $g call $pf32
    local.get $a i32.const 1 i32.shr_s local.get $a i32.const 1 i32.shr_u i32.mul local.tee $t32 drop local.get $t32 call $p32
    i64.const -1 drop i32.const -1 if (result i32) i32.const 32 else i32.const 0 end local.get $h local.get $h f64.gt i32.ge_u i32.const 31 local.get $e i32.shr_s i32.const -2147483648 local.tee $t32 drop local.get $t32 i64.const -4294967296 i64.const -4294967296 i64.ge_u select local.get $a i32.const 32 local.get $a select i32.const 0 local.get $e i32.mul i32.rotr i64.const -1 drop local.get $g local.get $g f32.gt select i32.const -1 if (result i32) local.get $a else local.get $e i32.popcnt i32.const 0 local.get $e i32.add i32.gt_s end select call $p32
    i64.const -1 drop local.get $e i64.const 81985529216486895 local.get $b i64.ne i32.and i64.const -1 drop local.get $e local.get $a i32.le_u if (result i32) i32.const 2 local.get $a i32.rotr i32.const 255 local.get $e i32.or i32.gt_u else local.get $a block (result i32) local.get $a i32.const 305419896 br_if 0 drop local.get $e end i32.ge_s end i32.shr_s local.get $e i32.const 255 i32.mul f64.convert_i32_s i64.const -1 drop f64.const 0 i64.const 81985529216486895 f64.convert_i64_s f64.sub f64.div i32.const 1 i32.clz if (result f64) i64.const 0 f64.convert_i64_s else local.get $h local.tee $tf64 drop local.get $tf64 end local.tee $tf64 drop local.get $tf64 f64.ne i32.shl call $p32
    block (result i32) local.get $a local.get $e br_if 0 drop local.get $e end local.get $a i32.sub local.get $a i32.const 1 i32.gt_u local.get $e local.tee $t32 drop local.get $t32 i32.xor i32.gt_s i64.extend_i32_s call $p64
    i64.const -1 drop local.get $d local.get $h f64.sub local.get $g f64.promote_f32 f64.mul local.get $h f64.div call $pf64
    block (result i32) local.get $e local.get $e br_if 0 drop i32.const -2147483648 end i32.const 255 local.get $a i32.const 1 i32.or i32.rem_u i32.shr_u call $p32
    local.get $f local.get $b i64.add i64.const -1 local.get $b i64.and local.get $a local.tee $t32 drop local.get $t32 select local.tee $t64 drop local.get $t64 call $p64
  )
  (func $main (export "main")
    i32.const 7 i64.const -3 f32.const 1.5 f64.const -2.25 i32.const -2147483648 i64.const 4294967301 f32.const 1e-3 f64.const 123456789.5 call $f
    i32.const -1 i64.const 9223372036854775807 f32.const -0 f64.const 0.1 i32.const 33 i64.const -9223372036854775808 f32.const 3.4e38 f64.const -1e300 call $f
  )
)
