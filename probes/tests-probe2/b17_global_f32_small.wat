(module
;;#prelude
  (global $g (mut f32) (f32.const 1.5e-10))
  (global $h (mut f32) (f32.const 0.123456789))
  (global $k (mut f32) (f32.const 3.0e38))
  (func $main (export "main")
    global.get $g i32.reinterpret_f32 call $p32
    global.get $h i32.reinterpret_f32 call $p32
    global.get $k i32.reinterpret_f32 call $p32
  )
)
