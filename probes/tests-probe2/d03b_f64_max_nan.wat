(module
;;#prelude
  (func $main (export "main")
    f64.const 0 f64.const 0 f64.div f64.const 1 f64.max f64.const 1 f64.eq call $p32)
)
