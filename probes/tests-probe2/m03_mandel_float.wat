(module
;;#prelude
  (func $iter (param $cx f64) (param $cy f64) (result i32) (local $x f64) (local $y f64) (local $t f64) (local $n i32)
    f64.const 0 local.set $x f64.const 0 local.set $y
    block $out
      loop $l
        local.get $x local.get $x f64.mul local.get $y local.get $y f64.mul f64.add f64.const 4 f64.gt br_if $out
        local.get $n i32.const 200 i32.ge_s br_if $out
        local.get $x local.get $x f64.mul local.get $y local.get $y f64.mul f64.sub local.get $cx f64.add local.set $t
        local.get $x local.get $y f64.mul f64.const 2 f64.mul local.get $cy f64.add local.set $y
        local.get $t local.set $x
        local.get $n i32.const 1 i32.add local.set $n
        br $l
      end
    end
    local.get $n)
  (func $main (export "main") (local $i i32) (local $j i32) (local $sum i32) (local $fs f32)
    f32.const 0 local.set $fs
    loop $li
      i32.const 0 local.set $j
      loop $lj
        local.get $j f64.convert_i32_s f64.const 0.1 f64.mul f64.const 2 f64.sub
        local.get $i f64.convert_i32_s f64.const 0.1 f64.mul f64.const 1.2 f64.sub
        call $iter local.get $sum i32.add local.set $sum
        local.get $fs local.get $j f32.convert_i32_u f32.sqrt f32.const 3 f32.div f32.add local.set $fs
        local.get $j i32.const 1 i32.add local.tee $j i32.const 30 i32.lt_s br_if $lj
      end
      local.get $i i32.const 1 i32.add local.tee $i i32.const 24 i32.lt_s br_if $li
    end
    local.get $sum call $p32
    local.get $fs i32.reinterpret_f32 call $p32
  )
)
