(module
;;#prelude
  (func $f (param i32) (result i64) (local i32) (local i64)
    i64.const 77 local.set 2
    i32.const 5 local.set 1
    local.get 2 local.get 1 i64.extend_i32_s i64.add)
  (func $main (export "main")
    i32.const 1 call $f call $p64
  )
)
