(module
;;#prelude

  (func $pf32 (param $v f32)
    local.get $v local.get $v f32.ne
    if i32.const -7777 call $p32 else local.get $v i32.reinterpret_f32 call $p32 end)
  (func $pf64 (param $v f64)
    local.get $v local.get $v f64.ne
    if i64.const -7777 call $p64 else local.get $v i64.reinterpret_f64 call $p64 end)
  (func $f (param $a i32) (param $b i64) (param $c f32) (param $d f64) (param $e i32) (param $f i64) (param $g f32) (param $h f64)
    (local $t32 i32) (local $t64 i64) (local $tf32 f32) (local $tf64 f64)
    block (result f32) f32.const -0 i64.const -1 drop i32.const 305419896 if (result i64) local.get $b else i64.const 0 end local.get $f local.get $b i64.shl local.get $e if (result i64) i64.const -1 else i64.const 9223372036854775807 end i64.mul i64.le_u br_if 0 drop local.get $a local.get $e i32.or f32.convert_i32_u f32.const 0.5 f64.const 0.5 f32.demote_f64 i32.const 2 local.get $a i32.shl select f32.mul end call $pf32
    local.get $b local.get $b i64.const 1 i64.or i64.div_u f64.convert_i64_s call $pf64
    local.get $e i32.const 2147483647 local.get $a i32.const 1 i32.or i32.rem_u i32.shl if (result f64) f32.const 0.5 f64.promote_f32 f64.const -1e-10 f64.mul else local.get $f f64.convert_i64_s end local.get $h local.get $b i64.const 63 i64.sub f64.convert_i64_s f64.sub local.get $e local.get $a i32.mul local.get $e i32.const 2 i32.shr_s i32.xor i64.const 64 i64.eqz i32.const -1 if (result i32) i32.const 31 else local.get $e end i32.ge_s i32.rotr select call $pf64
    local.get $e call $p32
    local.get $g f32.const 0.5 f32.mul local.get $c local.get $g f32.add f32.ge if (result i32) i32.const 255 local.get $e i32.rotl local.get $d local.get $h f64.le i32.mul else block (result i32) i32.const -2147483648 i32.const 2 br_if 0 drop local.get $e end f64.const 0.5 f64.const 3.25 f64.ge i32.and end call $p32
    i64.const -1 drop local.get $e i32.const 65535 local.get $e i32.const 255 i32.const 305419896 i32.rotl i32.mul if (result i32) local.get $f local.get $b i64.mul i64.eqz else local.get $e local.get $a i32.rotl f64.const -1.5 local.get $d f64.ne i32.rotl end select local.get $a i32.const 31 i32.shl if (result i32) i64.const 1 i64.const -1 i64.gt_u else local.get $f local.get $f i64.ge_u end i64.const -1 drop local.get $e i32.const 32 i32.ge_s local.get $e select i64.const -1 drop i32.const 0 if (result i64) i64.const -1 local.get $b local.get $a select else i64.const -9223372036854775808 end local.get $a i64.extend_i32_u i64.lt_u i32.shl i32.add call $p32
    local.get $b local.get $b i64.and local.get $a if (result i64) local.get $b else i64.const -1 end local.get $a local.get $e i32.rotr select call $p64
    local.get $e i32.const 255 i32.rotl i64.const -1 drop local.get $a i32.ge_s local.get $e local.get $a local.get $a i32.rotr i32.or local.get $a local.get $e i32.mul i32.clz select call $p32
    local.get $e local.get $a i32.lt_u i32.const 32 i32.const 2 i32.and i32.rotl local.tee $t32 drop local.get $t32 f64.convert_i32_s call $pf64
    local.get $e block (result i32) i32.const 32 local.get $e br_if 0 drop i32.const 31 end i32.shr_s if (result i64) local.get $e i32.popcnt i64.extend_i32_u else local.get $b local.get $f i32.const 32 select local.get $a if (result i64) local.get $f else local.get $f end i64.mul end i64.const 81985529216486895 i64.const 1 i64.shr_s i64.const 1 local.get $b i64.const 1 i64.or i64.div_u i64.const 1 i64.or i64.div_u i64.const -9223372036854775808 local.get $e local.get $a i32.const 1 i32.or i32.rem_u f64.const 16777217 f64.const 0 f64.eq i32.or select i64.mul call $p64
    i64.const -1 drop local.get $c local.get $h f32.demote_f64 f32.add local.get $g local.get $g f32.sub local.tee $tf32 drop local.get $tf32 f32.mul call $pf32
    f64.const 2.5 call $pf64
  )
  (func $main (export "main")
    i32.const 7 i64.const -3 f32.const 1.5 f64.const -2.25 i32.const -2147483648 i64.const 4294967301 f32.const 1e-3 f64.const 123456789.5 call $f
    i32.const -1 i64.const 9223372036854775807 f32.const -0 f64.const 0.1 i32.const 33 i64.const -9223372036854775808 f32.const 3.4e38 f64.const -1e300 call $f
  )
)
