(module
;;#prelude
  (type (func (param i32) (result i32)))
  (table 1 funcref)
  (elem (i32.const 0) $inc)
  (func $inc (param i32) (result i32) local.get 0 i32.const 1 i32.add)
  (func $main (export "main")
    i32.const 5 i32.const 0 call_indirect (type 0) call $p32
    block
      block
        i32.const 1 br_if 1
        i32.const 65 call $print_rune
      end
      i32.const 66 call $print_rune
    end
    i32.const 67 call $print_rune
  )
)
