(module
;;#prelude

  (func $pf32 (param $v f32)
    local.get $v local.get $v f32.ne
    if i32.const -7777 call $p32 else local.get $v i32.reinterpret_f32 call $p32 end)
  (func $pf64 (param $v f64)
    local.get $v local.get $v f64.ne
    if i64.const -7777 call $p64 else local.get $v i64.reinterpret_f64 call $p64 end)
  (func $f (param $a i32) (param $b i64) (param $c f32) (param $d f64) (param $e i32) (param $f i64) (param $g f32) (param $h f64)
    (local $t32 i32) (local $t64 i64) (local $tf32 f32) (local $tf64 f64)
    local.get $c f32.trunc f32.neg call $pf32
    local.get $f call $p64
    f64.const 0 local.get $e if (result f64) local.get $h else f64.const 3.25 end f64.sub call $pf64
    i64.const 64 i64.const 9223372036854775807 i64.or i32.const 255 if (result i64) i64.const 4294967296 else local.get $b end i64.and call $p64
    i64.const -1 drop i32.const 31 i32.const 31 local.get $e i32.mul i32.rotl if (result i64) i64.const -4294967296 else local.get $f i64.const 63 i64.sub local.get $b i64.rotr end i32.const 31 i64.extend_i32_u block (result i64) i64.const -4294967296 local.get $e br_if 0 drop i64.const 1 end local.get $e local.get $a i32.or select i64.const -1 local.get $b i64.shl i64.const -1 drop local.get $f local.get $b local.get $b i64.le_u select i64.shr_s i64.add call $p64
    local.get $f local.get $b i64.mul i64.const -1 drop local.get $b i64.add local.get $f local.get $b i64.add i64.const 63 local.get $f local.get $e select i64.xor i64.mul call $p64
    block (result i32) i32.const 255 i32.const 31 i32.const 1 i32.or i32.rem_u i32.const -1 if (result i32) local.get $e else local.get $e end i32.sub i32.const 31 local.get $a i32.ge_u local.get $a i32.const 255 i32.lt_u i32.xor br_if 0 drop local.get $a i32.eqz i32.const 65535 i32.const -2147483648 i32.rotl i32.const 1 i32.or i32.rem_u end f64.convert_i32_s call $pf64
    block (result i32) block (result i32) local.get $e i64.extend_i32_u i32.wrap_i64 i64.const 64 i32.wrap_i64 br_if 0 drop local.get $e i64.extend_i32_s local.get $b i64.const -4294967296 i64.const 1 i64.or i64.div_u i64.or i64.const -1 drop i64.const 63 local.get $f i64.sub i64.le_s end i32.const 32 i32.const 2147483647 i32.const 255 i32.shr_s local.get $f local.get $f i64.shr_u local.get $b i64.const 81985529216486895 i64.sub i64.gt_u i32.const 1 i32.or i32.rem_u i32.ge_u br_if 0 drop i32.const -1 i32.eqz end call $p32
    local.get $a f32.convert_i32_u local.get $g f32.div local.tee $tf32 drop local.get $tf32 local.get $e local.get $e i32.shl local.tee $t32 drop local.get $t32 f32.convert_i32_s f32.mul f32.nearest call $pf32
    local.get $d local.get $d local.get $a select f64.trunc call $pf64
    i32.const 2 local.get $e i32.const 2 select local.get $e i32.const 255 i32.shl i32.and local.get $a if (result i32) local.get $a else local.get $e end local.get $f i32.wrap_i64 i32.and i32.and if (result i32) i32.const 1 i64.extend_i32_s local.get $b i64.const 1 i64.rotl i64.rotr i32.wrap_i64 else block (result i32) i32.const -1 local.get $e br_if 0 drop i32.const -1 end local.get $a i32.const 1 i32.or i32.rem_u i64.const -1 drop f32.const 16777217 f32.const 2.5 f32.eq i32.or end call $p32
    i64.const -1 drop f64.const 1e10 f64.const -0 f64.div local.get $a local.get $a i32.shl if (result f64) block (result f64) f64.const 1 local.get $e br_if 0 drop f64.const 16777217 end else f64.const 1e10 end local.get $e i32.const 305419896 i32.shr_u i32.const 32 i32.const 65535 i32.ge_u i32.eq select local.get $d local.get $d f64.sub f64.trunc local.get $b f64.convert_i64_s local.tee $tf64 drop local.get $tf64 f64.add f64.sub call $pf64
  )
  (func $main (export "main")
    i32.const 7 i64.const -3 f32.const 1.5 f64.const -2.25 i32.const -2147483648 i64.const 4294967301 f32.const 1e-3 f64.const 123456789.5 call $f
    i32.const -1 i64.const 9223372036854775807 f32.const -0 f64.const 0.1 i32.const 33 i64.const -9223372036854775808 f32.const 3.4e38 f64.const -1e300 call $f
  )
)
