(module
;;#prelude
  (func $main (export "main")
    i64.const -1 f32.convert_i64_u i32.reinterpret_f32 call $p32)
)
