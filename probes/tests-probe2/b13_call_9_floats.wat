(module
;;#prelude
  (func $f (param f64 f64 f64 f64 f64 f64 f64 f64 f64) (result f64)
    local.get 4)
  (func $g (param f64 f64 f64 f64 f64 f64 f64 f64 f64 f64) (result f64)
    local.get 0 f64.const 2 f64.mul
    local.get 4 f64.const 3 f64.mul f64.add
    local.get 8 f64.const 5 f64.mul f64.add
    local.get 9 f64.const 7 f64.mul f64.add)
  (func $main (export "main")
    f64.const 1 f64.const 2 f64.const 3 f64.const 4 f64.const 5 f64.const 6 f64.const 7 f64.const 8 f64.const 9
    call $f i64.trunc_f64_s call $p64
    f64.const 1 f64.const 2 f64.const 3 f64.const 4 f64.const 5 f64.const 6 f64.const 7 f64.const 8 f64.const 9 f64.const 10
    call $g i64.trunc_f64_s call $p64
  )
)
