package api_test

// Probe C24 (loader part): file inclusion by #wa:build constraint. Place in api/.
import (
	"fmt"
	"math/rand"
	"os"
	"path/filepath"
	"sort"
	"strings"
	"testing"

	"wa-lang.org/wa/api"
)

const zzProj = "/tmp/probe7/out/proj/tags"

type zzE struct {
	op   byte
	tag  string
	l, r *zzE
}

func zzGenE(rng *rand.Rand, tags []string, d int) *zzE {
	if d <= 0 || rng.Intn(3) == 0 {
		return &zzE{op: 't', tag: tags[rng.Intn(len(tags))]}
	}
	switch rng.Intn(4) {
	case 0:
		return &zzE{op: '!', l: zzGenE(rng, tags, d-1)}
	case 1:
		return &zzE{op: '&', l: zzGenE(rng, tags, d-1), r: zzGenE(rng, tags, d-1)}
	default:
		return &zzE{op: '|', l: zzGenE(rng, tags, d-1), r: zzGenE(rng, tags, d-1)}
	}
}
func (e *zzE) String() string {
	switch e.op {
	case 't':
		return e.tag
	case '!':
		return "!(" + e.l.String() + ")"
	case '&':
		return "(" + e.l.String() + " && " + e.r.String() + ")"
	}
	return "(" + e.l.String() + " || " + e.r.String() + ")"
}
func (e *zzE) eval(on map[string]bool) bool {
	switch e.op {
	case 't':
		return on[e.tag]
	case '!':
		return !e.l.eval(on)
	case '&':
		return e.l.eval(on) && e.r.eval(on)
	}
	return e.l.eval(on) || e.r.eval(on)
}

func zzLoadFiles(t *testing.T, cfg *api.Config) ([]string, error) {
	prog, err := api.LoadProgram(cfg, zzProj)
	if err != nil {
		return nil, err
	}
	pkg := prog.Pkgs["tags/p"]
	if pkg == nil {
		return nil, fmt.Errorf("package tags/p not loaded")
	}
	var names []string
	for _, f := range pkg.Files {
		names = append(names, filepath.Base(prog.Fset.Position(f.Pos()).Filename))
	}
	sort.Strings(names)
	return names, nil
}

func TestZZProbeC24Loader(t *testing.T) {
	if _, err := os.Stat(zzProj); err != nil {
		t.Skip(err)
	}
	rng := rand.New(rand.NewSource(2400))
	tagAlphabet := []string{"js", "linux", "wasm", "x64", "foo", "bar", "baz.q", "wasi"}
	oses := []string{"js", "linux", "unknown"}
	n, fails := 0, 0
	for it := 0; it < 150 && fails < 8; it++ {
		// clean old files
		old, _ := filepath.Glob(zzProj + "/src/p/f*.wa")
		for _, o := range old {
			os.Remove(o)
		}
		cfg := api.DefaultConfig()
		cfg.TargetOS = oses[rng.Intn(len(oses))]
		var userTags []string
		for _, tg := range []string{"foo", "bar", "baz.q"} {
			if rng.Intn(2) == 0 {
				userTags = append(userTags, tg)
			}
		}
		cfg.BuilgTags = userTags
		on := map[string]bool{cfg.TargetOS: true, "wasm": true}
		for _, tg := range userTags {
			on[tg] = true
		}
		want := []string{"base.wa"}
		var desc []string
		for i := 0; i < 4; i++ {
			e := zzGenE(rng, tagAlphabet, 3)
			name := fmt.Sprintf("f%d.wa", i)
			var src string
			switch rng.Intn(3) {
			case 0:
				src = fmt.Sprintf("#wa:build %s\n\nconst F%d = %d\n", e, i, i)
			case 1:
				src = fmt.Sprintf("// 版权\n\n#wa:build %s\n\nconst F%d = %d\n", e, i, i)
			case 2:
				src = fmt.Sprintf("// doc\n#wa:build %s\r\nconst F%d = %d\r\n", e, i, i)
			}
			os.WriteFile(filepath.Join(zzProj, "src/p", name), []byte(src), 0666)
			if e.eval(on) {
				want = append(want, name)
			}
			desc = append(desc, fmt.Sprintf("%s: %q", name, src))
		}
		sort.Strings(want)
		got, err := zzLoadFiles(t, cfg)
		n++
		if err != nil || strings.Join(got, ",") != strings.Join(want, ",") {
			fails++
			t.Errorf("os=%s tags=%v\n files=%v\n got=%v err=%v\n want=%v", cfg.TargetOS, userTags, desc, got, err, want)
		}
	}
	t.Logf("C24 loader: %d random project loads, %d failures", n, fails)
}

// Configured target architecture must drive arch tags.
func TestZZProbeC24LoaderArch(t *testing.T) {
	if _, err := os.Stat(zzProj); err != nil {
		t.Skip(err)
	}
	old, _ := filepath.Glob(zzProj + "/src/p/f*.wa")
	for _, o := range old {
		os.Remove(o)
	}
	os.WriteFile(zzProj+"/src/p/f0.wa", []byte("#wa:build x64\n\nconst F0 = 0\n"), 0666)
	os.WriteFile(zzProj+"/src/p/f1.wa", []byte("#wa:build wasm\n\nconst F1 = 1\n"), 0666)
	os.WriteFile(zzProj+"/src/p/f2.wa", []byte("#wa:build !x64\n\nconst F2 = 2\n"), 0666)
	defer func() {
		old, _ := filepath.Glob(zzProj + "/src/p/f*.wa")
		for _, o := range old {
			os.Remove(o)
		}
	}()
	cfg := api.DefaultConfig()
	cfg.TargetArch = "x64"
	cfg.TargetOS = "linux"
	got, err := zzLoadFiles(t, cfg)
	want := "base.wa,f0.wa"
	t.Logf("TargetArch=x64: files=%v err=%v (want %s)", got, err, want)
	if strings.Join(got, ",") != want {
		t.Errorf("arch tags ignore cfg.TargetArch: got %v want %s", got, want)
	}
}
