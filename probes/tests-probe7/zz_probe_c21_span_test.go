package span

// Probe C21 (span helpers): UTF-16 column conversion vs reference. Place in internal/lsp/span/.
import (
	"math/rand"
	"strings"
	"testing"
	"unicode/utf16"
	"unicode/utf8"
)

func TestZZProbeC21SpanUTF16(t *testing.T) {
	rng := rand.New(rand.NewSource(3))
	alpha := []string{"a", "b", "é", "中", "😀", "𝄞", "\t", " "}
	n := 0
	for it := 0; it < 30000; it++ {
		var pre, line strings.Builder
		for i, m := 0, rng.Intn(3); i < m; i++ {
			for j, k := 0, rng.Intn(5); j < k; j++ {
				pre.WriteString(alpha[rng.Intn(len(alpha))])
			}
			pre.WriteString("\n")
		}
		for j, k := 0, rng.Intn(12); j < k; j++ {
			line.WriteString(alpha[rng.Intn(len(alpha))])
		}
		eol := []string{"", "\n", "\r\n", "\nnext"}[rng.Intn(4)]
		content := []byte(pre.String() + line.String() + eol)
		lineNo := strings.Count(pre.String(), "\n") + 1
		lineStart := len(pre.String())
		l := line.String()
		for b := 0; b <= len(l); {
			n++
			want16 := len(utf16.Encode([]rune(l[:b]))) + 1
			p := NewPoint(lineNo, b+1, lineStart+b)
			got, err := ToUTF16Column(p, content)
			if err != nil || got != want16 {
				t.Fatalf("ToUTF16Column content=%q line=%q byte=%d: got %d,%v want %d", content, l, b, got, err, want16)
			}
			back, err := FromUTF16Column(NewPoint(lineNo, 1, lineStart), want16, content)
			// FromUTF16Column errors when the line start is at EOF and chr>1 cannot happen here (b>0 implies content)
			if err != nil || back.Column() != b+1 || back.Offset() != lineStart+b {
				t.Fatalf("FromUTF16Column content=%q line=%q chr=%d: got col=%d off=%d err=%v want col=%d off=%d", content, l, want16, back.Column(), back.Offset(), err, b+1, lineStart+b)
			}
			if b == len(l) {
				break
			}
			_, sz := utf8.DecodeRuneInString(l[b:])
			b += sz
		}
	}
	t.Logf("C21 span utf16: %d column conversions", n)
}
