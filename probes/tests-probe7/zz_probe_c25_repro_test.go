package slip

// Minimal reproducers for C25 findings.
import (
	"bytes"
	"io"
	"testing"
)

// scriptReader returns each step as one Read; a nil step is a "no data yet" read (0, nil).
type scriptReader struct {
	steps [][]byte
	final error // returned together with the last data step if non-nil
}

func (s *scriptReader) Read(p []byte) (int, error) {
	if len(s.steps) == 0 {
		return 0, io.EOF
	}
	st := s.steps[0]
	if st == nil {
		s.steps = s.steps[1:]
		return 0, nil
	}
	n := copy(p, st)
	if n < len(st) {
		s.steps[0] = st[n:]
		return n, nil
	}
	s.steps = s.steps[1:]
	if len(s.steps) == 0 && s.final != nil {
		return n, s.final
	}
	return n, nil
}

func zzReassemble(r *Reader, max int) (pkts [][]byte) {
	var cur []byte
	for i := 0; i < 50 && len(pkts) < max; i++ {
		p, isPrefix, _ := r.ReadPacket()
		cur = append(cur, p...)
		if !isPrefix {
			pkts = append(pkts, cur)
			cur = nil
		}
	}
	if cur != nil {
		pkts = append(pkts, append([]byte("UNTERMINATED:"), cur...))
	}
	return
}

func TestZZProbeC25ReproPauseBeforeEND(t *testing.T) {
	// two packets "ab" and "c"; the transport has nothing to deliver for one Read just before the END of the first
	r := NewReader(&scriptReader{steps: [][]byte{{END, 'a', 'b'}, nil, {END, END, 'c', END}}})
	got := zzReassemble(r, 2)
	if len(got) != 2 || string(got[0]) != "ab" || string(got[1]) != "c" {
		t.Errorf("got %q, want [\"ab\" \"c\"]", got)
	}
}

func TestZZProbeC25ReproPauseInsideEscape(t *testing.T) {
	// packet {0xC0}: encoded END ESC ESC_END END, with a pause between ESC and ESC_END
	r := NewReader(&scriptReader{steps: [][]byte{{END, ESC}, nil, {ESC_END, END}}})
	got := zzReassemble(r, 1)
	if len(got) != 1 || !bytes.Equal(got[0], []byte{END}) {
		t.Errorf("got %x, want [c0]", got)
	}
}

func TestZZProbeC25ReproDataWithEOF(t *testing.T) {
	// the final Read returns the last byte together with io.EOF (legal for io.Reader, cf. iotest.DataErrReader)
	r := NewReader(&scriptReader{steps: [][]byte{{END}, {'a'}, {END}}, final: io.EOF})
	p, isPrefix, err := r.ReadPacket()
	if string(p) != "a" || isPrefix {
		t.Errorf("got p=%q isPrefix=%v err=%v, want complete packet \"a\"", p, isPrefix, err)
	}
}

func TestZZProbeC25ReproSlipMuxMerge(t *testing.T) {
	var stream bytes.Buffer
	w := NewSlipMuxWriter(&stream)
	w.WritePacket(FRAME_DIAGNOSTIC, []byte("one"))
	w.WritePacket(FRAME_DIAGNOSTIC, []byte("two"))
	b := stream.Bytes() // c0 0a 'o' 'n' 'e' c0 c0 0a 't' 'w' 'o' c0
	r := NewSlipMuxReader(&scriptReader{steps: [][]byte{b[:5], nil, b[5:]}})
	p, f, err := r.ReadPacket()
	if string(p) != "one" || f != FRAME_DIAGNOSTIC || err != nil {
		t.Errorf("first packet: got %q frame=%#x err=%v, want \"one\"", p, f, err)
	}
}
