package buildtag

// Probe C24: build-tag expressions vs an independent evaluator. Place in internal/loader/buildtag/.
import (
	"fmt"
	"math/rand"
	"strings"
	"testing"
	"unicode"
)

type zzNode struct {
	op   byte // 't','!','&','|'
	tag  string
	l, r *zzNode
}

var zzTags = []string{"a", "b", "c", "linux", "wasm", "x.y", "_1", "386", "中文", "A"}

func zzGen(rng *rand.Rand, depth int) *zzNode {
	if depth <= 0 || rng.Intn(3) == 0 {
		return &zzNode{op: 't', tag: zzTags[rng.Intn(len(zzTags))]}
	}
	switch rng.Intn(5) {
	case 0:
		return &zzNode{op: '!', l: zzGen(rng, depth-1)}
	case 1, 2:
		return &zzNode{op: '&', l: zzGen(rng, depth-1), r: zzGen(rng, depth-1)}
	default:
		return &zzNode{op: '|', l: zzGen(rng, depth-1), r: zzGen(rng, depth-1)}
	}
}

func (n *zzNode) eval(as map[string]bool) bool {
	switch n.op {
	case 't':
		return as[n.tag]
	case '!':
		return !n.l.eval(as)
	case '&':
		return n.l.eval(as) && n.r.eval(as)
	}
	return n.l.eval(as) || n.r.eval(as)
}

func zzPrec(op byte) int {
	switch op {
	case '|':
		return 1
	case '&':
		return 2
	case '!':
		return 3
	}
	return 4
}

func zzSp(rng *rand.Rand) string {
	return []string{"", "", " ", "  ", "\t"}[rng.Intn(5)]
}

// render with minimal parentheses (relying on precedence and left associativity) plus random redundant ones
func (n *zzNode) render(rng *rand.Rand, parentPrec int, rightOperand bool) string {
	var s string
	switch n.op {
	case 't':
		s = n.tag
	case '!':
		inner := n.l.render(rng, 3, false)
		if n.l.op == '!' { // "!!" is rejected by design: parenthesize
			inner = "(" + inner + ")"
		}
		s = "!" + zzSp(rng) + inner
	case '&', '|':
		op := "&&"
		if n.op == '|' {
			op = "||"
		}
		p := zzPrec(n.op)
		s = n.l.render(rng, p, false) + zzSp(rng) + op + zzSp(rng) + n.r.render(rng, p, true)
	}
	p := zzPrec(n.op)
	need := p < parentPrec || (p == parentPrec && rightOperand && (n.op == '&' || n.op == '|'))
	// (a && (b && c)) has the same truth value as a && b && c but we keep the shape: parenthesize right-nested
	if need || rng.Intn(6) == 0 {
		s = "(" + zzSp(rng) + s + zzSp(rng) + ")"
	}
	return s
}

func zzAssignments(rng *rand.Rand) []map[string]bool {
	var out []map[string]bool
	for k := 0; k < 8; k++ {
		m := map[string]bool{}
		for _, t := range zzTags {
			m[t] = rng.Intn(2) == 0
		}
		out = append(out, m)
	}
	out = append(out, map[string]bool{}) // nothing set
	all := map[string]bool{}
	for _, t := range zzTags {
		all[t] = true
	}
	return append(out, all)
}

func TestZZProbeC24Eval(t *testing.T) {
	rng := rand.New(rand.NewSource(24))
	n, evals, fails, doubleNeg := 0, 0, 0, 0
	for i := 0; i < 60000 && fails < 10; i++ {
		ast := zzGen(rng, 1+rng.Intn(5))
		text := ast.render(rng, 0, false)
		line := "#wa:build" + []string{" ", "\t", "  "}[rng.Intn(3)] + text + []string{"", "\n", " ", "\r\n", " \t"}[rng.Intn(5)]
		n++
		x, err := Parse(line)
		if err != nil {
			fails++
			t.Errorf("Parse(%q) error: %v", line, err)
			continue
		}
		// print / reparse
		s := x.String()
		y, err := Parse("#wa:build " + s)
		if err != nil {
			if strings.Contains(s, "!!") {
				doubleNeg++
				if doubleNeg == 1 {
					t.Errorf("reparse of String()=%q (from %q) failed: %v", s, line, err)
				}
				y = x
			} else {
				fails++
				t.Errorf("reparse of String()=%q (from %q) failed: %v", s, line, err)
				continue
			}
		}
		if y.String() != s {
			fails++
			t.Errorf("String not stable: %q -> %q", s, y.String())
		}
		for _, as := range zzAssignments(rng) {
			evals++
			seen := map[string]bool{}
			ok := func(tag string) bool { seen[tag] = true; return as[tag] }
			want := ast.eval(as)
			if got := x.Eval(ok); got != want {
				fails++
				t.Errorf("line=%q assignment=%v: got %v want %v (String=%q)", line, as, got, want, s)
				break
			}
			if got := y.Eval(func(tag string) bool { return as[tag] }); got != want {
				fails++
				t.Errorf("reparsed %q: got %v want %v", s, got, want)
				break
			}
			// pushNot preserves semantics
			if got := pushNot(x, false).Eval(func(tag string) bool { return as[tag] }); got != want {
				fails++
				t.Errorf("pushNot(%q): got %v want %v", s, got, want)
				break
			}
			if got := pushNot(x, true).Eval(func(tag string) bool { return as[tag] }); got != !want {
				fails++
				t.Errorf("pushNot(%q,true): got %v want %v", s, got, !want)
				break
			}
		}
	}
	t.Logf("C24 eval: %d expressions, %d evaluations, %d failures, %d print/reparse failures due to !! output", n, evals, fails, doubleNeg)
}

// ---- independent recognizer for malformed input ----

type zzLexer struct {
	toks []string
	bad  bool
}

func zzLex(s string) zzLexer {
	var lx zzLexer
	rs := []rune(s)
	for i := 0; i < len(rs); {
		c := rs[i]
		switch {
		case c == ' ' || c == '\t':
			i++
		case c == '(' || c == ')' || c == '!':
			lx.toks = append(lx.toks, string(c))
			i++
		case c == '&' || c == '|':
			if i+1 < len(rs) && rs[i+1] == c {
				lx.toks = append(lx.toks, string(c)+string(c))
				i += 2
			} else {
				lx.bad = true
				return lx
			}
		case unicode.IsLetter(c) || unicode.IsDigit(c) || c == '_' || c == '.':
			j := i
			for j < len(rs) && (unicode.IsLetter(rs[j]) || unicode.IsDigit(rs[j]) || rs[j] == '_' || rs[j] == '.') {
				j++
			}
			lx.toks = append(lx.toks, "T"+string(rs[i:j]))
			i = j
		default:
			lx.bad = true
			return lx
		}
	}
	return lx
}

type zzP struct {
	toks []string
	i    int
	ok   bool
}

func (p *zzP) peek() string {
	if p.i < len(p.toks) {
		return p.toks[p.i]
	}
	return ""
}
func (p *zzP) or() {
	p.and()
	for p.ok && p.peek() == "||" {
		p.i++
		p.and()
	}
}
func (p *zzP) and() {
	p.not()
	for p.ok && p.peek() == "&&" {
		p.i++
		p.not()
	}
}
func (p *zzP) not() {
	if p.peek() == "!" {
		p.i++
		if p.peek() == "!" {
			p.ok = false
			return
		}
	}
	p.atom()
}
func (p *zzP) atom() {
	if !p.ok {
		return
	}
	t := p.peek()
	switch {
	case t == "(":
		p.i++
		p.or()
		if p.peek() != ")" {
			p.ok = false
			return
		}
		p.i++
	case strings.HasPrefix(t, "T"):
		p.i++
	default:
		p.ok = false
	}
}

func zzValid(s string) bool {
	lx := zzLex(s)
	if lx.bad {
		return false
	}
	p := &zzP{toks: lx.toks, ok: true}
	p.or()
	return p.ok && p.i == len(p.toks)
}

func TestZZProbeC24Malformed(t *testing.T) {
	rng := rand.New(rand.NewSource(2424))
	soup := []string{"a", "b", "linux", "(", ")", "!", "&&", "||", "&", "|", " ", "\t", "-", ",", "a b", "中", "+", "//", "#", "\"", "=", "1", ".", "_"}
	n, valid, invalid, fails := 0, 0, 0, 0
	for i := 0; i < 300000 && fails < 10; i++ {
		var sb strings.Builder
		for k, m := 0, rng.Intn(9); k < m; k++ {
			sb.WriteString(soup[rng.Intn(len(soup))])
		}
		text := sb.String()
		n++
		want := zzValid(text)
		var got bool
		var err error
		func() {
			defer func() {
				if r := recover(); r != nil {
					err = fmt.Errorf("PANIC %v", r)
				}
			}()
			_, err = Parse("#wa:build " + text)
			got = err == nil
		}()
		if want {
			valid++
		} else {
			invalid++
		}
		if got != want || (err != nil && strings.HasPrefix(err.Error(), "PANIC")) {
			fails++
			t.Errorf("Parse(%q): accepted=%v err=%v, reference valid=%v", "#wa:build "+text, got, err, want)
		}
	}
	t.Logf("C24 malformed: %d inputs (%d valid, %d invalid by reference), %d divergences", n, valid, invalid, fails)
}

func TestZZProbeC24Lines(t *testing.T) {
	cases := []struct {
		line string
		isC  bool // is a constraint line
		ok   bool // parses
	}{
		{"#wa:build a", true, true},
		{"#wa:build", true, false},
		{"#wa:build ", true, false},
		{"#wa:builda", false, false},
		{"#wa:build\ta", true, true},
		{" #wa:build a", false, false},
		{"#wa:build a\n", true, true},
		{"#wa:build a\n\n", false, false},
		{"#wa:build a\nb", false, false},
		{"#wa:build a\r\n", true, true},
		{"# wa:build a", false, false},
		{"#wa:build a // comment", true, false},
		{"#wa:build a,b", true, false},
		{"#wa:build a b", true, false},
		{"#wa:build !!a", true, false},
		{"#wa:build !(!a)", true, true},
		{"#wa:build ()", true, false},
		{"#wa:build (a", true, false},
		{"#wa:build a)", true, false},
		{"#wa:build a &&", true, false},
		{"#wa:build || a", true, false},
		{"#wa:build a & b", true, false},
		{"#wa:build a && b", true, false},
		{"//go:build a", false, false},
		{"// #wa:build a", false, false},
	}
	for _, c := range cases {
		x, err := Parse(c.line)
		if IsWaBuild(c.line) != c.isC {
			t.Errorf("IsWaBuild(%q)=%v want %v", c.line, !c.isC, c.isC)
		}
		if (err == nil) != c.ok {
			t.Errorf("Parse(%q) = %v, %v; want ok=%v", c.line, x, err, c.ok)
		}
	}
}
