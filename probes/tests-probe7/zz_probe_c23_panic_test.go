package wazero_test

// Probe C23 (runtime part): panic/assert messages carry file:line:col of the call.
// Place in internal/wazero/.
import (
	"fmt"
	"math/rand"
	"strings"
	"testing"

	"wa-lang.org/wa/api"
	"wa-lang.org/wa/internal/wat/watutil"
	"wa-lang.org/wa/internal/wazero"
)

func zzRun(t *testing.T, filename, code string) (stdout, stderr string, err error) {
	mainFunc, watBytes, fsetBytes, err := api.BuildFile(api.DefaultConfig(), filename, code)
	if err != nil {
		return "", "", fmt.Errorf("build: %w", err)
	}
	wasmBytes, err := watutil.Wat2Wasm("a.out.wat", watBytes)
	if err != nil {
		return "", "", fmt.Errorf("wat2wasm: %w", err)
	}
	so, se, err := wazero.RunWasm(filename, wasmBytes, fsetBytes, mainFunc)
	return string(so), string(se), err
}

// locate returns 1-based line and byte column of the first occurrence of marker in code.
func zzLocate(code, marker string) (int, int) {
	off := strings.Index(code, marker)
	line, col := 1, 1
	for i := 0; i < off; i++ {
		if code[i] == '\n' {
			line++
			col = 1
		} else {
			col++
		}
	}
	return line, col
}

func TestZZProbeC23Panic(t *testing.T) {
	cases := []struct{ name, file, code, marker string }{
		{"basic-tab", "main.wa", "\nfunc main {\n\tpanic(\"boom\")\n}\n", "panic("},
		{"spaces", "main.wa", "func main {\n        panic(\"boom\")\n}\n", "panic("},
		{"non-ascii-same-line", "main.wa", "func main {\n\ts := \"中文😀\"; _ = s; panic(\"boom\")\n}\n", "panic("},
		{"non-ascii-comment-before", "main.wa", "// 注释 😀\nfunc main {\n\t/* 多行\n 注释 */ panic(\"boom\")\n}\n", "panic("},
		{"crlf", "main.wa", "func main {\r\n\tprintln(1)\r\n\tpanic(\"boom\")\r\n}\r\n", "panic("},
		{"no-trailing-newline", "main.wa", "func main {\n\tpanic(\"boom\")}", "panic("},
		{"in-other-func", "main.wa", "func main {\n\tf(3)\n}\n\nfunc f(x: int) {\n\tif x > 2 {\n\t\tpanic(\"boom\")\n\t}\n}\n", "panic("},
		{"in-closure", "main.wa", "func main {\n\tg := func() {\n\t\t\tpanic(\"boom\")\n\t}\n\tg()\n}\n", "panic("},
		{"in-method", "main.wa", "type T :struct{a: int}\n\nfunc T.M {\n  panic(\"boom\")\n}\n\nfunc main {\n\tv: T\n\tv.M()\n}\n", "panic("},
		{"many-lines", "main.wa", strings.Repeat("// filler line\n", 300) + "func main {\n\tpanic(\"boom\")\n}\n", "panic("},
		{"long-line", "main.wa", "func main {\n" + "\t/*" + strings.Repeat("x", 300) + "*/ panic(\"boom\")\n}\n", "panic("},
	}
	for _, c := range cases {
		so, se, err := zzRun(t, c.file, c.code)
		line, col := zzLocate(c.code, c.marker)
		col += len(c.marker) - 1 // ssa convention: the position of a call is its left parenthesis
		want := fmt.Sprintf("%s:%d:%d", c.file, line, col)
		all := so + "|" + se + "|" + fmt.Sprint(err)
		status := "OK"
		if !strings.Contains(all, want) {
			status = "MISMATCH"
			t.Errorf("[%s] want position %q in output; stdout=%q stderr=%q err=%v", c.name, want, so, se, firstLine(fmt.Sprint(err)))
		}
		t.Logf("[%s] %s want=%s stdout=%q stderr=%q err=%q", c.name, status, want, so, se, firstLine(fmt.Sprint(err)))
	}
}

func firstLine(s string) string {
	if i := strings.IndexByte(s, '\n'); i >= 0 {
		return s[:i]
	}
	return s
}

func TestZZProbeC23PanicRandom(t *testing.T) {
	rng := newRng(2323)
	fillers := []string{"// c\n", "// 注释😀\n", "\n", "/* a\n b */\n", "global g%d = 1\n", "// x\r\n", "\t\n", "func f%d() { }\n", "const C%d = \"é\\n\"\n"}
	inl := []string{"", "\t", "  ", "/*é*/ ", "/*😀😀*/\t", "x := 1; _ = x; ", "s := \"中\"; _ = s; "}
	n, fails := 0, 0
	for i := 0; i < 120; i++ {
		var sb strings.Builder
		for k, m := 0, rng.Intn(8); k < m; k++ {
			f := fillers[rng.Intn(len(fillers))]
			if strings.Contains(f, "%d") {
				f = fmt.Sprintf(f, k)
			}
			sb.WriteString(f)
		}
		eol := "\n"
		if rng.Intn(3) == 0 {
			eol = "\r\n"
		}
		sb.WriteString("func main {" + eol)
		for k, m := 0, rng.Intn(3); k < m; k++ {
			sb.WriteString("\tprintln(" + fmt.Sprint(k) + ")" + eol)
		}
		sb.WriteString(inl[rng.Intn(len(inl))] + inl[rng.Intn(5)] + "panic(\"boom\")")
		if rng.Intn(2) == 0 {
			sb.WriteString(eol + "}" + eol)
		} else {
			sb.WriteString("}")
		}
		code := sb.String()
		so, se, err := zzRun(t, "main.wa", code)
		line, col := zzLocate(code, "panic(")
		want := fmt.Sprintf("(main.wa:%d:%d)", line, col+5)
		n++
		if !strings.Contains(so+se, want) {
			fails++
			t.Errorf("code=%q want %s stdout=%q stderr=%q err=%v", code, want, so, se, firstLine(fmt.Sprint(err)))
		}
	}
	t.Logf("C23 runtime panic random: %d programs, %d failures", n, fails)
}

func newRng(seed int64) *rand.Rand { return rand.New(rand.NewSource(seed)) }
