name = "tags"
pkgpath = "tags"
target = "js"
