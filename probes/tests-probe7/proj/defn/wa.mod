name = "defn"
pkgpath = "defn"
target = "wasi"
