# 版权 @2026 hello 作者。保留所有权利。

name = "hello"
pkgpath = "myapp"
target = "wasi"
