package lsp

// Related to C21: handlers must work on the synced document, not on the file on disk.
import (
	"context"
	"os"
	"testing"

	"wa-lang.org/wa/internal/lsp/protocol"
)

func TestZZProbeC21FormattingUsesSyncedText(t *testing.T) {
	const path = "/tmp/probe7/out/proj/defn/src/main.wa"
	disk, err := os.ReadFile(path)
	if err != nil {
		t.Skip(err)
	}
	uri := protocol.URIFromPath(path)
	s := NewLSPServer(nil)
	// the client's buffer: unsaved, badly formatted, 6 lines
	client := "func main {\n\n\n\n      println(1)\n}\n"
	c21Open(s, uri, client)
	edits, err := s.Formatting(context.Background(), &protocol.DocumentFormattingParams{TextDocument: protocol.TextDocumentIdentifier{URI: uri}})
	t.Logf("disk=%q\nclient=%q\nedits=%+v err=%v", disk, client, edits, err)
	if len(edits) == 0 {
		t.Errorf("no edits for an unformatted client buffer (server formatted the %d-byte file on disk instead)", len(disk))
		return
	}
	got, ok := applyToClient(client, edits)
	t.Logf("client after applying edits: %q ok=%v", got, ok)
	if want := "func main {\n\tprintln(1)\n}\n"; got != want {
		t.Errorf("client buffer after formatting = %q, want %q (edits were computed from the file on disk)", got, want)
	}
}

func applyToClient(text string, edits []protocol.TextEdit) (string, bool) {
	d := newRef(text, false)
	for i := len(edits) - 1; i >= 0; i-- {
		if !d.apply(edits[i].Range, edits[i].NewText) {
			return "", false
		}
	}
	return d.String(), true
}
