package lsp

// Probe C21 edge cases: prints behaviour for review.
import (
	"testing"

	"wa-lang.org/wa/internal/lsp/protocol"
)

func rg(sl, sc, el, ec uint32) *protocol.Range {
	return &protocol.Range{Start: protocol.Position{Line: sl, Character: sc}, End: protocol.Position{Line: el, Character: ec}}
}

func TestZZProbeC21Edge(t *testing.T) {
	type ch = protocol.TextDocumentContentChangeEvent
	cases := []struct {
		name string
		uri  protocol.DocumentURI
		open *string
		chs  []ch
		want string // expected client text (per LSP spec)
		wantErr bool
	}{
		{"lone-CR-as-EOL: insert at line1 col0 of 'a\\rb'", "file:///p/a.wa", sp("a\rb"), []ch{{Range: rg(1, 0, 1, 0), Text: "X"}}, "a\rXb", false},
		{"lone-CR: 'a\\rb\\nc' edit line 2", "file:///p/a.wa", sp("a\rb\nc"), []ch{{Range: rg(2, 0, 2, 1), Text: "X"}}, "a\rb\nX", false},
		{"full change inside multi-change list", "file:///p/a.wa", sp("abc"), []ch{{Range: rg(0, 0, 0, 1), Text: "X"}, {Text: "whole"}}, "whole", false},
		{"full change first then incremental", "file:///p/a.wa", sp("abc"), []ch{{Text: "whole"}, {Range: rg(0, 0, 0, 1), Text: "X"}}, "Xhole", false},
		{"mid-surrogate start", "file:///p/a.wa", sp("a😀b"), []ch{{Range: rg(0, 2, 0, 2), Text: "X"}}, "?", false},
		{"mid-surrogate range 0:2-0:3", "file:///p/a.wa", sp("a😀b"), []ch{{Range: rg(0, 2, 0, 3), Text: "X"}}, "?", false},
		{"between CR and LF", "file:///p/a.wa", sp("a\r\nb"), []ch{{Range: rg(0, 2, 0, 2), Text: "X"}}, "reject-or-clamp(aX\\r\\nb)", false},
		{"line==linecount char0 (doc 'a')", "file:///p/a.wa", sp("a"), []ch{{Range: rg(1, 0, 1, 0), Text: "X"}}, "reject", true},
		{"line==linecount char0 (doc 'a\\n')", "file:///p/a.wa", sp("a\n"), []ch{{Range: rg(2, 0, 2, 0), Text: "X"}}, "reject", true},
		{".wz document change", "file:///p/a.wz", sp("abc"), []ch{{Range: rg(0, 0, 0, 1), Text: "X"}}, "Xbc", false},
		{".wz full change", "file:///p/a.wz", sp("abc"), []ch{{Text: "new"}}, "new", false},
		{".wa.zh?? upper-case .WA", "file:///p/a.WA", sp("abc"), []ch{{Text: "new"}}, "new", false},
		{"change on unopened doc (incremental)", "file:///p/never.wa", nil, []ch{{Range: rg(0, 0, 0, 0), Text: "X"}}, "error", true},
		{"empty doc insert", "file:///p/a.wa", sp(""), []ch{{Range: rg(0, 0, 0, 0), Text: "😀\r\n"}}, "😀\r\n", false},
		{"rangeLength only (deprecated) full text", "file:///p/a.wa", sp("abc"), []ch{{RangeLength: 3, Text: "new"}}, "?", false},
		{"invalid utf8 in doc, edit after it", "file:///p/a.wa", sp("a\xffb"), []ch{{Range: rg(0, 2, 0, 3), Text: "X"}}, "a\xffX", false},
		{"empty changes", "file:///p/a.wa", sp("abc"), []ch{}, "abc", true},
		{"percent-encoded uri variant", "file:///p/a%20b.wa", sp("abc"), []ch{{Range: rg(0, 0, 0, 1), Text: "X"}}, "Xbc", false},
	}
	for _, c := range cases {
		s := c21Server()
		if c.open != nil {
			c21Open(s, c.uri, *c.open)
		}
		err := c21Change(s, c.uri, 2, c.chs)
		got, ok := s.fileMap[c.uri.Path()]
		t.Logf("%-50s err=%v stored=%q(present=%v)  spec-expected=%q wantErr=%v", c.name, err, got, ok, c.want, c.wantErr)
	}
	// two URIs spelling the same path
	s := c21Server()
	c21Open(s, "file:///p/a%20b.wa", "abc")
	err := c21Change(s, "file:///p/a b.wa", 2, []ch{{Range: rg(0, 0, 0, 1), Text: "X"}})
	t.Logf("open a%%20b.wa change 'a b.wa': err=%v map=%v", err, s.fileMap)
}

func sp(s string) *string { return &s }
