package diff

import (
	"fmt"
	"math/rand"
	"strings"
	"testing"
)

// D22-1: the "+" start line of a hunk that follows a hunk in which two edits were joined by
// unchanged lines is too small by the number of joining lines.
func TestZZProbeC22ReproHunkToLine(t *testing.T) {
	var old, new []string
	for i := 1; i <= 20; i++ {
		old = append(old, fmt.Sprintf("l%d\n", i))
		new = append(new, fmt.Sprintf("l%d\n", i))
	}
	new[0], new[2], new[19] = "X1\n", "X3\n", "X20\n" // lines 1 and 3 are joined by line 2; line 20 starts a new hunk
	a, b := strings.Join(old, ""), strings.Join(new, "")
	u := Unified("a", "b", a, b)
	t.Logf("\n%s", u)
	if !strings.Contains(u, "@@ -17,4 +17,4 @@") {
		t.Errorf("second hunk header: want \"@@ -17,4 +17,4 @@\" (no line was added or removed before it)")
	}
	got, err := c22ApplyUnified(a, u)
	if err != nil || got != b {
		t.Errorf("strict apply: %v", err)
	}
}

// D22-2: with zero context lines a hunk side with no lines is printed as "-N"/"+N" (meaning one line)
// instead of "-N,0"/"+N,0".
func TestZZProbeC22ReproZeroCount(t *testing.T) {
	a, b := "a\nb\n", "a\nb\nc\n"
	edits := Strings(a, b)
	u, err := ToUnified("a", "b", a, edits, 0)
	t.Logf("edits=%v err=%v\n%s", edits, err, u)
	if !strings.Contains(u, "@@ -2,0 +3 @@") {
		t.Errorf("want hunk header \"@@ -2,0 +3 @@\" for a pure insertion after line 2")
	}
	if got, err := c22ApplyUnified(a, u); err != nil || got != b {
		t.Errorf("strict apply: got %q err=%v", got, err)
	}
	a, b = "a\nb\nc\n", "a\nc\n"
	edits = Strings(a, b)
	u, err = ToUnified("a", "b", a, edits, 0)
	t.Logf("edits=%v err=%v\n%s", edits, err, u)
	if !strings.Contains(u, "@@ -2 +1,0 @@") {
		t.Errorf("want hunk header \"@@ -2 +1,0 @@\" for a pure deletion of line 2")
	}
}

// S22-3: a character-level edit that straddles a line end makes the unified diff list an
// unchanged line as removed and added again.
func TestZZProbeC22ReproUnchangedLineListed(t *testing.T) {
	a, b := "a\nb\n", "a\nX\nb\n"
	edits := Strings(a, b)
	u := Unified("a", "b", a, b)
	t.Logf("edits=%v\n%s", edits, u)
	if strings.Contains(u, "-a\n+a\n") {
		t.Errorf("unchanged line \"a\" is listed as removed and added")
	}
}

// line-level minimality of Unified on line oriented texts
func TestZZProbeC22UnifiedMinimal(t *testing.T) {
	rng := rand.New(rand.NewSource(9))
	vocab := []string{"foo\n", "bar\n", "\n", "func main() {\n", "}\n", "x := 1\n"}
	n, nonMinimal, sameLine := 0, 0, 0
	for i := 0; i < 20000; i++ {
		a := c22RandFrom(rng, vocab, 12)
		// mutate by whole lines
		la := c22SplitLines(a)
		var lb []string
		for _, l := range la {
			switch rng.Intn(6) {
			case 0: // delete
			case 1:
				lb = append(lb, l, vocab[rng.Intn(len(vocab))])
			default:
				lb = append(lb, l)
			}
		}
		b := strings.Join(lb, "")
		if a == b {
			continue
		}
		n++
		u := Unified("a", "b", a, b)
		minus, plus := 0, 0
		var ml, pl []string
		for _, l := range strings.Split(u, "\n")[2:] {
			if strings.HasPrefix(l, "-") {
				minus++
				ml = append(ml, l[1:])
			} else if strings.HasPrefix(l, "+") {
				plus++
				pl = append(pl, l[1:])
			}
		}
		// LCS over lines
		lb2 := c22SplitLines(b)
		dp := make([][]int, len(la)+1)
		for x := range dp {
			dp[x] = make([]int, len(lb2)+1)
		}
		for x := len(la) - 1; x >= 0; x-- {
			for y := len(lb2) - 1; y >= 0; y-- {
				if la[x] == lb2[y] {
					dp[x][y] = dp[x+1][y+1] + 1
				} else if dp[x+1][y] > dp[x][y+1] {
					dp[x][y] = dp[x+1][y]
				} else {
					dp[x][y] = dp[x][y+1]
				}
			}
		}
		min := len(la) + len(lb2) - 2*dp[0][0]
		if minus+plus > min {
			nonMinimal++
			if nonMinimal == 1 {
				t.Logf("non-minimal: a=%q b=%q listed=%d minimal=%d\n%s", a, b, minus+plus, min, u)
			}
		}
	}
	_ = sameLine
	t.Logf("C22 unified minimality: %d line-edited pairs, %d list more changed lines than the minimal line diff", n, nonMinimal)
}
