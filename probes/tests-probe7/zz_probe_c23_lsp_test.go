package lsp

// Probe C23 (LSP ranges): Definition result must be expressed in UTF-16 columns.
import (
	"context"
	"os"
	"strings"
	"testing"
	"unicode/utf16"

	"wa-lang.org/wa/internal/lsp/protocol"
)

func TestZZProbeC23Definition(t *testing.T) {
	const path = "/tmp/probe7/out/proj/defn/src/main.wa"
	src, err := os.ReadFile(path)
	if err != nil {
		t.Skip(err)
	}
	uri := protocol.URIFromPath(path)
	s := NewLSPServer(nil)
	// cursor on the use of abc inside println(abc)
	line1 := strings.Split(string(src), "\n")[1]
	useByte := strings.LastIndex(line1, "abc")
	declByte := strings.Index(line1, "abc")
	u16 := func(b int) uint32 { return uint32(len(utf16.Encode([]rune(line1[:b])))) }
	locs, err := s.Definition(context.Background(), &protocol.DefinitionParams{
		TextDocumentPositionParams: protocol.TextDocumentPositionParams{
			TextDocument: protocol.TextDocumentIdentifier{URI: uri},
			Position:     protocol.Position{Line: 1, Character: u16(useByte)},
		},
	})
	if err != nil || len(locs) != 1 {
		t.Fatalf("Definition: %v %v", locs, err)
	}
	want := protocol.Position{Line: 1, Character: u16(declByte)}
	t.Logf("line=%q decl byte col0=%d utf16 col0=%d; got %v", line1, declByte, want.Character, locs[0].Range)
	if locs[0].Range.Start != want {
		t.Errorf("Definition start = %v, want %v (UTF-16); byte column leaked into LSP position", locs[0].Range.Start, want)
	}
}
