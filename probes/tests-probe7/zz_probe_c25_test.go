package slip

// Probe C25: SLIP framing round trip under arbitrary read chunking. Place in internal/3rdparty/slip/.
import (
	"bytes"
	"errors"
	"fmt"
	"io"
	"math/rand"
	"runtime"
	"testing"
	"time"
)

// chunkReader delivers data in given chunk sizes; between chunks it can report
// "nothing yet" in one of several io.Reader-legal ways.
type chunkReader struct {
	data   []byte
	rng    *rand.Rand
	mode   string // "plain", "zero-nil", "timeout-err", "data+eof"
	maxChk int
	pause  bool
	eofs   int
	hung   bool
}

var errTimeout = errors.New("i/o timeout (temporary)")

func (c *chunkReader) Read(p []byte) (int, error) {
	if len(c.data) == 0 {
		c.eofs++
		if c.eofs > 2000 {
			c.hung = true
			runtime.Goexit() // the caller spins on EOF forever: stop this goroutine (deferred calls run)
		}
		return 0, io.EOF
	}
	if c.pause {
		c.pause = false
		switch c.mode {
		case "zero-nil":
			return 0, nil
		case "timeout-err":
			return 0, errTimeout
		}
	}
	n := 1 + c.rng.Intn(c.maxChk)
	if n > len(p) {
		n = len(p)
	}
	if n > len(c.data) {
		n = len(c.data)
	}
	copy(p, c.data[:n])
	c.data = c.data[n:]
	c.pause = c.rng.Intn(3) == 0
	if c.mode == "data+eof" && len(c.data) == 0 {
		return n, io.EOF // legal: final data together with EOF
	}
	return n, nil
}

func zzPacket(rng *rand.Rand) []byte {
	special := []byte{END, ESC, ESC_END, ESC_ESC, 0x00, 0x0a, 0x45, 0x60, 0xa9, 0xff}
	n := 1 + rng.Intn(12)
	if rng.Intn(20) == 0 {
		n = 200 + rng.Intn(2000)
	}
	p := make([]byte, n)
	for i := range p {
		if rng.Intn(2) == 0 {
			p[i] = special[rng.Intn(len(special))]
		} else {
			p[i] = byte(rng.Intn(256))
		}
	}
	return p
}

// reference encoder (RFC 1055), independent of the package
func zzEncode(p []byte) []byte {
	out := []byte{0xC0}
	for _, b := range p {
		switch b {
		case 0xC0:
			out = append(out, 0xDB, 0xDC)
		case 0xDB:
			out = append(out, 0xDB, 0xDD)
		default:
			out = append(out, b)
		}
	}
	return append(out, 0xC0)
}

// readAll reassembles packets from a slip.Reader the way SlipMuxReader does (isPrefix continuation).
func zzReadAll(r *Reader, want int) (pkts [][]byte, err error) {
	var cur []byte
	deadline := time.Now().Add(5 * time.Second)
	idle := 0
	for len(pkts) < want {
		if time.Now().After(deadline) {
			return pkts, fmt.Errorf("timeout (hang)")
		}
		p, isPrefix, e := r.ReadPacket()
		cur = append(cur, p...)
		if !isPrefix {
			pkts = append(pkts, cur)
			cur = nil
			idle = 0
			continue
		}
		if e == io.EOF {
			idle++
			if idle > 3 {
				if len(cur) > 0 {
					return pkts, fmt.Errorf("EOF with %d unterminated bytes %x", len(cur), cur)
				}
				return pkts, fmt.Errorf("EOF after %d packets", len(pkts))
			}
		}
	}
	return pkts, nil
}

func TestZZProbeC25Slip(t *testing.T) {
	for _, mode := range []string{"plain", "zero-nil", "timeout-err", "data+eof"} {
		rng := rand.New(rand.NewSource(25))
		n, fails := 0, 0
		var firstFail string
		for it := 0; it < 20000; it++ {
			k := 1 + rng.Intn(5)
			var pkts [][]byte
			var stream bytes.Buffer
			w := NewWriter(&stream)
			var ref []byte
			for i := 0; i < k; i++ {
				p := zzPacket(rng)
				pkts = append(pkts, p)
				if err := w.WritePacket(p); err != nil {
					t.Fatal(err)
				}
				ref = append(ref, zzEncode(p)...)
			}
			if !bytes.Equal(stream.Bytes(), ref) {
				t.Fatalf("encoder differs from RFC1055 reference: pkts=%x got=%x want=%x", pkts, stream.Bytes(), ref)
			}
			n++
			cr := &chunkReader{data: append([]byte(nil), stream.Bytes()...), rng: rng, mode: mode, maxChk: 1 + rng.Intn(8)}
			got, err := zzReadAll(NewReader(cr), k)
			ok := err == nil && len(got) == k
			if ok {
				for i := range got {
					if !bytes.Equal(got[i], pkts[i]) {
						ok = false
					}
				}
			}
			if !ok {
				fails++
				if firstFail == "" || len(stream.Bytes()) < 12 {
					firstFail = fmt.Sprintf("sent=%x stream=%x got=%x err=%v", pkts, stream.Bytes(), got, err)
				}
			}
		}
		t.Logf("C25 slip [%s]: %d sequences, %d failures", mode, n, fails)
		if fails > 0 {
			t.Errorf("[%s] e.g. %s", mode, firstFail)
		}
	}
}

func TestZZProbeC25SlipMux(t *testing.T) {
	for _, mode := range []string{"plain", "zero-nil", "data+eof"} {
		rng := rand.New(rand.NewSource(2525))
		n, fails := 0, 0
		var firstFail string
		for it := 0; it < 10000; it++ {
			k := 1 + rng.Intn(4)
			type fp struct {
				frame byte
				p     []byte
			}
			var sent []fp
			var stream bytes.Buffer
			w := NewSlipMuxWriter(&stream)
			for i := 0; i < k; i++ {
				p := zzPacket(rng)
				var frame byte
				switch rng.Intn(4) {
				case 0:
					frame = FRAME_DIAGNOSTIC
				case 1:
					frame = FRAME_COAP
					for len(p) < 4 {
						p = append(p, byte(rng.Intn(256)))
					}
				case 2: // IP frame: the frame byte is the first payload byte
					if rng.Intn(2) == 0 {
						frame = byte(FRAME_IPV4_START + rng.Intn(FRAME_IPV4_END-FRAME_IPV4_START+1))
					} else {
						frame = byte(FRAME_IPV6_START + rng.Intn(FRAME_IPV6_END-FRAME_IPV6_START+1))
					}
					p[0] = frame
				case 3: // arbitrary valid frame type
					for {
						frame = byte(rng.Intn(256))
						if frame != END && frame != ESC && frame != 0 && !IsIpFrame(frame) && frame != FRAME_COAP {
							break
						}
					}
				}
				sent = append(sent, fp{frame, p})
				if err := w.WritePacket(frame, append([]byte(nil), p...)); err != nil {
					t.Fatal(err)
				}
			}
			n++
			cr := &chunkReader{data: append([]byte(nil), stream.Bytes()...), rng: rng, mode: mode, maxChk: 1 + rng.Intn(8)}
			r := NewSlipMuxReader(cr)
			ok := true
			var gotDesc string
			for i := 0; i < k && ok; i++ {
				done := make(chan struct{})
				var p []byte
				var f byte
				var err error
				go func() {
					defer func() {
						if rec := recover(); rec != nil {
							err = fmt.Errorf("PANIC %v", rec)
						}
						close(done)
					}()
					p, f, err = r.ReadPacket()
				}()
				select {
				case <-done:
				case <-time.After(3 * time.Second):
					ok = false
					gotDesc += " HANG"
					continue
				}
				if cr.hung {
					ok = false
					gotDesc += " HANG(spins on EOF)"
					continue
				}
				gotDesc += fmt.Sprintf(" (%02x %x %v)", f, p, err)
				if err != nil || f != sent[i].frame || !bytes.Equal(p, sent[i].p) {
					ok = false
				}
			}
			if !ok {
				fails++
				if firstFail == "" {
					firstFail = fmt.Sprintf("sent=%x stream=%x got=%s", sent, stream.Bytes(), gotDesc)
				}
			}
		}
		t.Logf("C25 slipmux [%s]: %d sequences, %d failures", mode, n, fails)
		if fails > 0 {
			t.Errorf("[%s] e.g. %s", mode, firstFail)
		}
	}
}

func TestZZProbeC25Edge(t *testing.T) {
	read := func(stream []byte, want int) string {
		got, err := zzReadAll(NewReader(bytes.NewReader(stream)), want)
		return fmt.Sprintf("%x err=%v", got, err)
	}
	t.Logf("back-to-back END:            %s", read([]byte{END, END, END, 'a', END, END, END, 'b', END}, 2))
	t.Logf("garbage before first END:    %s", read([]byte{'x', 'y', END, 'a', END}, 2))
	t.Logf("invalid escape ESC 'q':      %s", read([]byte{END, 'a', ESC, 'q', 'b', END}, 1))
	t.Logf("ESC END (escape then END):   %s", read([]byte{END, 'a', ESC, END, 'b', END}, 2))
	t.Logf("unterminated at EOF:         %s", read([]byte{END, 'a', 'b'}, 1))
	t.Logf("ESC at EOF:                  %s", read([]byte{END, 'a', ESC}, 1))
	// FCS
	msg := []byte{FRAME_COAP, 1, 2, 3, 4, 5}
	withFcs := AppendFcs16(append([]byte(nil), msg...), CalcFcs16(msg))
	t.Logf("fcs check good=%v; flipped=%v", CheckFsc16(withFcs), func() bool { b := append([]byte(nil), withFcs...); b[2] ^= 1; return CheckFsc16(b) }())
	// reference CRC-16/X-25
	crc := func(d []byte) uint16 {
		c := uint16(0xffff)
		for _, b := range d {
			c ^= uint16(b)
			for i := 0; i < 8; i++ {
				if c&1 != 0 {
					c = c>>1 ^ 0x8408
				} else {
					c >>= 1
				}
			}
		}
		return c
	}
	rng := rand.New(rand.NewSource(1))
	for i := 0; i < 20000; i++ {
		d := make([]byte, rng.Intn(40))
		rng.Read(d)
		if CalcFcs16(d) != crc(d) {
			t.Fatalf("FCS differs from bitwise reference for %x", d)
		}
		w := AppendFcs16(append([]byte(nil), d...), CalcFcs16(d))
		if !CheckFsc16(w) || !bytes.Equal(RemoveFcs16(w), d) {
			t.Fatalf("FCS append/check failed for %x", d)
		}
		if len(w) > 0 {
			w[rng.Intn(len(w))] ^= 1 << uint(rng.Intn(8))
			if CheckFsc16(w) {
				t.Fatalf("single bit error undetected for %x", d)
			}
		}
	}
	t.Logf("FCS16: 20000 random messages agree with bitwise CRC-16/X-25 reference")
}
