package token

// Probe C23: positions vs. independent newline/byte counting; JSON round trip. Place in internal/token/.
import (
	"bytes"
	"encoding/gob"
	"fmt"
	"math/rand"
	"strings"
	"testing"
)

type c23Ref struct {
	name    string
	content string
	base    int
}

// c23EOFQuirk: like go/token (golang/go#41029) the EOF position of a file that ends
// in a newline is reported on the last line, not on a new empty line.
var c23EOFQuirk = true

func (r c23Ref) pos(off int) Position {
	line, col := 1, 1
	for i := 0; i < off; i++ {
		if r.content[i] == '\n' && !(c23EOFQuirk && i == len(r.content)-1) {
			line++
			col = 1
		} else {
			col++
		}
	}
	return Position{Filename: r.name, Offset: off, Line: line, Column: col}
}

func c23RandContent(rng *rand.Rand) string {
	alpha := []string{"a", "b", "\t", " ", "\n", "\n", "\r\n", "é", "中", "😀", "\r", "//x"}
	n := rng.Intn(40)
	var sb strings.Builder
	for i := 0; i < n; i++ {
		sb.WriteString(alpha[rng.Intn(len(alpha))])
	}
	return sb.String()
}

func c23Build(rng *rand.Rand) (*FileSet, []c23Ref, []*File) {
	fset := NewFileSet()
	var refs []c23Ref
	var files []*File
	nf := 1 + rng.Intn(5)
	for i := 0; i < nf; i++ {
		content := c23RandContent(rng)
		name := fmt.Sprintf("dir%d/f%d.wa", i%2, i)
		if rng.Intn(4) == 0 {
			name = "same.wa"
		}
		var f *File
		switch rng.Intn(4) {
		case 0: // scanner style: AddLine
			f = fset.AddFile(name, -1, len(content))
			for off := 0; off < len(content); off++ {
				if content[off] == '\n' {
					f.AddLine(off + 1)
				}
			}
		case 1: // SetLinesForContent
			f = fset.AddFile(name, -1, len(content))
			f.SetLinesForContent([]byte(content))
		case 2: // with capacity and explicit base gap
			f = fset.AddFileWithCap(name, fset.Base()+rng.Intn(10), len(content), len(content)+rng.Intn(20))
			f.SetLinesForContent([]byte(content))
		case 3: // created with other size, then updated (file update in reserved capacity)
			old := c23RandContent(rng)
			f = fset.AddFileWithCap(name, -1, len(old), len(old)+len(content)+5)
			f.SetLinesForContent([]byte(old))
			f.SetLinesForContent([]byte(content))
		}
		refs = append(refs, c23Ref{name, content, f.Base()})
		files = append(files, f)
	}
	return fset, refs, files
}

func c23CheckAll(t *testing.T, tag string, fset *FileSet, refs []c23Ref) (n int, ok bool) {
	ok = true
	i := 0
	fset.Iterate(func(f *File) bool {
		r := refs[i]
		i++
		if f.Name() != r.name || f.Base() != r.base || f.Size() != len(r.content) {
			t.Errorf("[%s] file meta: got (%q,%d,%d) want (%q,%d,%d)", tag, f.Name(), f.Base(), f.Size(), r.name, r.base, len(r.content))
			ok = false
			return true
		}
		wantLines := strings.Count(r.content, "\n") + 1
		if strings.HasSuffix(r.content, "\n") {
			wantLines-- // go/token: no entry for an empty last line
		}
		if len(r.content) == 0 {
			wantLines = 1
		}
		_ = wantLines
		for off := 0; off <= len(r.content); off++ {
			if len(r.content) == 0 {
				break // go/token heritage: SetLinesForContent("") leaves no line table, position is "invalid"
			}
			n++
			p := Pos(r.base + off)
			got := fset.Position(p)
			want := r.pos(off)
			if got != want {
				t.Errorf("[%s] content=%q off=%d: got %+v want %+v", tag, r.content, off, got, want)
				ok = false
				return false
			}
			if ff := fset.File(p); ff != f {
				t.Errorf("[%s] File(%d) wrong file", tag, p)
				ok = false
			}
			if f.Offset(p) != off || f.Pos(off) != p || f.Line(p) != want.Line {
				t.Errorf("[%s] Offset/Pos/Line mismatch at %d", tag, off)
				ok = false
			}
			if got2 := f.Position(p); got2 != want {
				t.Errorf("[%s] File.Position mismatch", tag)
				ok = false
			}
			// string form file:line:col
			s := got.String()
			wantS := fmt.Sprintf("%s:%d:%d", r.name, want.Line, want.Column)
			if s != wantS {
				t.Errorf("[%s] String %q want %q", tag, s, wantS)
				ok = false
			}
		}
		// LineStart
		line := 1
		for off := 0; off < len(r.content); off++ {
			if off == 0 || r.content[off-1] == '\n' {
				if ls := f.LineStart(line); int(ls) != r.base+off {
					t.Errorf("[%s] LineStart(%d)=%d want %d content=%q", tag, line, ls, r.base+off, r.content)
					ok = false
				}
				line++
			}
		}
		return true
	})
	if i != len(refs) {
		t.Errorf("[%s] file count %d want %d", tag, i, len(refs))
		ok = false
	}
	return
}

func TestZZProbeC23Positions(t *testing.T) {
	rng := rand.New(rand.NewSource(23))
	total, sets := 0, 0
	for it := 0; it < 5000; it++ {
		fset, refs, _ := c23Build(rng)
		sets++
		n, ok := c23CheckAll(t, "direct", fset, refs)
		total += n
		if !ok {
			t.Fatalf("direct failed")
		}
		// JSON round trip into a fresh set
		js := fset.ToJson()
		f2 := NewFileSet()
		if err := f2.FromJson(js); err != nil {
			t.Fatalf("FromJson: %v", err)
		}
		n, ok = c23CheckAll(t, "json-fresh", f2, refs)
		total += n
		if !ok {
			t.Fatalf("json-fresh failed; json=%s", js)
		}
		if f2.Base() != fset.Base() {
			t.Fatalf("Base after json %d want %d", f2.Base(), fset.Base())
		}
		// JSON round trip into a used set (cache of last file must not leak)
		f3, refs3, _ := c23Build(rng)
		for _, r := range refs3 {
			f3.Position(Pos(r.base))
		}
		if err := f3.FromJson(js); err != nil {
			t.Fatalf("FromJson: %v", err)
		}
		n, ok = c23CheckAll(t, "json-reused", f3, refs)
		total += n
		if !ok {
			t.Fatalf("json-reused failed")
		}
		// second generation: json of the deserialized set is identical
		if js2 := f2.ToJson(); !bytes.Equal(js, js2) {
			t.Fatalf("json not stable:\n%s\n%s", js, js2)
		}
		// gob path via Write/Read
		var buf bytes.Buffer
		if err := fset.Write(gob.NewEncoder(&buf).Encode); err != nil {
			t.Fatalf("gob write: %v", err)
		}
		f4 := NewFileSet()
		if err := f4.Read(gob.NewDecoder(&buf).Decode); err != nil {
			t.Fatalf("gob read: %v", err)
		}
		n, ok = c23CheckAll(t, "gob", f4, refs)
		total += n
		if !ok {
			t.Fatalf("gob failed")
		}
		// files can still be added after deserialization without overlapping
		nf := f2.AddFile("new.wa", -1, 10)
		if f2.File(Pos(refs[len(refs)-1].base)) == nf {
			t.Fatalf("new file overlaps old positions")
		}
		n, ok = c23CheckAll(t, "json-fresh-after-add", f2, append(append([]c23Ref{}, refs...), c23Ref{"new.wa", strings.Repeat("x", 10), nf.Base()}))
		total += n
		if !ok {
			t.Fatalf("after-add failed")
		}
	}
	t.Logf("C23 positions: %d file sets, %d position checks", sets, total)
}

// //line style alternative positions survive JSON
func TestZZProbeC23LineInfo(t *testing.T) {
	rng := rand.New(rand.NewSource(2323))
	n := 0
	for it := 0; it < 5000; it++ {
		fset := NewFileSet()
		content := c23RandContent(rng) + "\nxx\nyy\n"
		f := fset.AddFile("a.wa", -1, len(content))
		f.SetLinesForContent([]byte(content))
		// add infos at random increasing line starts
		type info struct {
			off, line, col int
			name           string
		}
		var infos []info
		for off := 1; off < len(content); off++ {
			if content[off-1] == '\n' && rng.Intn(3) == 0 {
				in := info{off, 1 + rng.Intn(100), rng.Intn(3), fmt.Sprintf("alt%d.wa", rng.Intn(3))}
				infos = append(infos, in)
				f.AddLineColumnInfo(in.off, in.name, in.line, in.col)
			}
		}
		ref := c23Ref{"a.wa", content, f.Base()}
		want := func(off int, adjusted bool) Position {
			p := ref.pos(off)
			if !adjusted {
				return p
			}
			var cur *info
			for i := range infos {
				if infos[i].off <= off {
					cur = &infos[i]
				}
			}
			if cur == nil {
				return p
			}
			base := ref.pos(cur.off)
			d := p.Line - base.Line
			q := Position{Filename: cur.name, Offset: off, Line: cur.line + d, Column: p.Column}
			if cur.col == 0 {
				q.Column = 0
			} else if d == 0 {
				q.Column = cur.col + (off - cur.off)
			}
			return q
		}
		f2 := NewFileSet()
		if err := f2.FromJson(fset.ToJson()); err != nil {
			t.Fatal(err)
		}
		for off := 0; off <= len(content); off++ {
			for _, adj := range []bool{true, false} {
				n++
				p := Pos(f.Base() + off)
				g1, g2, w := fset.PositionFor(p, adj), f2.PositionFor(p, adj), want(off, adj)
				if g1 != w || g2 != w {
					t.Fatalf("content=%q infos=%v off=%d adj=%v: direct=%+v json=%+v want=%+v", content, infos, off, adj, g1, g2, w)
				}
			}
		}
	}
	t.Logf("C23 lineinfo: %d checks", n)
}
