package buildtag

import (
	"strings"
	"testing"
)

// Deep nesting: expected a syntax/limit error, not a fatal stack overflow.
func TestZZProbeC24Deep(t *testing.T) {
	for _, n := range []int{1000, 100000, 5000000} {
		line := "#wa:build " + strings.Repeat("(", n) + "a" + strings.Repeat(")", n)
		_, err := Parse(line)
		t.Logf("depth %d: err=%v", n, err)
	}
}
