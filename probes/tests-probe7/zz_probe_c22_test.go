package diff

// Probe C22: diff round trips. Place in internal/lsp/diff/.
import (
	"fmt"
	"math/rand"
	"strconv"
	"strings"
	"testing"
	"unicode/utf8"

	"wa-lang.org/wa/internal/lsp/diff/lcs"
)

func c22Boundaries(s string) map[int]bool {
	m := map[int]bool{}
	for i := 0; i < len(s); {
		m[i] = true
		_, sz := utf8.DecodeRuneInString(s[i:])
		i += sz
	}
	m[len(s)] = true
	return m
}

// independent applier
func c22Apply(src string, edits []Edit) (string, error) {
	var sb strings.Builder
	last := 0
	for i, e := range edits {
		if e.Start < last {
			return "", fmt.Errorf("edit %d overlaps/unsorted: %v (last end %d)", i, e, last)
		}
		if e.Start > e.End || e.End > len(src) {
			return "", fmt.Errorf("edit %d out of bounds: %v", i, e)
		}
		sb.WriteString(src[last:e.Start])
		sb.WriteString(e.New)
		last = e.End
	}
	sb.WriteString(src[last:])
	return sb.String(), nil
}

func c22SplitLines(s string) []string {
	if s == "" {
		return nil
	}
	l := strings.SplitAfter(s, "\n")
	if l[len(l)-1] == "" {
		l = l[:len(l)-1]
	}
	return l
}

// strict unified diff applier (GNU semantics)
func c22ApplyUnified(old, patch string) (string, error) {
	if patch == "" {
		return old, nil
	}
	oldLines := c22SplitLines(old)
	recs := strings.Split(patch, "\n")
	if recs[len(recs)-1] != "" {
		return "", fmt.Errorf("patch does not end in newline")
	}
	recs = recs[:len(recs)-1]
	if len(recs) < 2 || !strings.HasPrefix(recs[0], "--- ") || !strings.HasPrefix(recs[1], "+++ ") {
		return "", fmt.Errorf("bad header")
	}
	i := 2
	var out []string
	cursor := 0
	const noNL = "\\ No newline at end of file"
	for i < len(recs) {
		h := recs[i]
		i++
		if !strings.HasPrefix(h, "@@ -") || !strings.HasSuffix(h, " @@") {
			return "", fmt.Errorf("bad hunk header %q", h)
		}
		f := strings.Fields(h)
		if len(f) != 4 {
			return "", fmt.Errorf("bad hunk header %q", h)
		}
		parse := func(s string) (int, int, error) {
			s = s[1:]
			cnt := 1
			if k := strings.IndexByte(s, ','); k >= 0 {
				c, err := strconv.Atoi(s[k+1:])
				if err != nil {
					return 0, 0, err
				}
				cnt = c
				s = s[:k]
			}
			st, err := strconv.Atoi(s)
			return st, cnt, err
		}
		fl, fc, err := parse(f[1])
		if err != nil {
			return "", err
		}
		tl, tc, err := parse(f[2])
		if err != nil {
			return "", err
		}
		pos := fl - 1
		if fc == 0 {
			pos = fl
		}
		if pos < cursor || pos > len(oldLines) {
			return "", fmt.Errorf("hunk %q position %d out of order (cursor %d, lines %d)", h, pos, cursor, len(oldLines))
		}
		out = append(out, oldLines[cursor:pos]...)
		cursor = pos
		wantTo := len(out) + 1
		if tc == 0 {
			wantTo = len(out)
		}
		if tl != wantTo {
			return "", fmt.Errorf("hunk %q: to-line %d but output is at line %d", h, tl, wantTo)
		}
		gf, gt := 0, 0
		for gf < fc || gt < tc {
			if i >= len(recs) {
				return "", fmt.Errorf("hunk %q truncated", h)
			}
			r := recs[i]
			i++
			if r == "" {
				return "", fmt.Errorf("hunk %q: empty record", h)
			}
			text := r[1:] + "\n"
			if i < len(recs) && recs[i] == noNL {
				text = r[1:]
				i++
			}
			switch r[0] {
			case ' ', '-':
				if cursor >= len(oldLines) || oldLines[cursor] != text {
					got := "<EOF>"
					if cursor < len(oldLines) {
						got = oldLines[cursor]
					}
					return "", fmt.Errorf("hunk %q: line %d mismatch: patch %q file %q", h, cursor+1, text, got)
				}
				cursor++
				gf++
				if r[0] == ' ' {
					out = append(out, text)
					gt++
				}
			case '+':
				out = append(out, text)
				gt++
			default:
				return "", fmt.Errorf("hunk %q: bad record %q", h, r)
			}
		}
		if gf != fc || gt != tc {
			return "", fmt.Errorf("hunk %q: counts %d/%d", h, gf, gt)
		}
	}
	out = append(out, oldLines[cursor:]...)
	res := strings.Join(out, "")
	// a line without newline may only be last
	for k, l := range out {
		if !strings.HasSuffix(l, "\n") && k != len(out)-1 {
			return "", fmt.Errorf("line without newline in the middle of output")
		}
	}
	return res, nil
}

type c22Gen func(rng *rand.Rand) (string, string)

func c22RandFrom(rng *rand.Rand, alpha []string, maxn int) string {
	n := rng.Intn(maxn + 1)
	var sb strings.Builder
	for i := 0; i < n; i++ {
		sb.WriteString(alpha[rng.Intn(len(alpha))])
	}
	return sb.String()
}

func c22Mutate(rng *rand.Rand, s string, alpha []string, k int) string {
	b := []byte(s)
	for i := 0; i < k; i++ {
		p := rng.Intn(len(b) + 1)
		switch rng.Intn(3) {
		case 0:
			ins := alpha[rng.Intn(len(alpha))]
			b = append(b[:p], append([]byte(ins), b[p:]...)...)
		case 1:
			if p < len(b) {
				q := p + 1 + rng.Intn(3)
				if q > len(b) {
					q = len(b)
				}
				b = append(b[:p], b[q:]...)
			}
		case 2:
			if p < len(b) {
				b[p] = alpha[rng.Intn(len(alpha))][0]
			}
		}
	}
	return string(b)
}

var c22Gens = map[string]c22Gen{
	"ascii-small": func(rng *rand.Rand) (string, string) {
		a := []string{"a", "b", "\n"}
		return c22RandFrom(rng, a, 40), c22RandFrom(rng, a, 40)
	},
	"lines": func(rng *rand.Rand) (string, string) {
		a := []string{"foo\n", "bar\n", "\n", "foo\n", "x", "baz\r\n", "\t}\n"}
		return c22RandFrom(rng, a, 25), c22RandFrom(rng, a, 25)
	},
	"lines-mutated": func(rng *rand.Rand) (string, string) {
		a := []string{"foo\n", "bar\n", "\n", "func main() {\n", "}\n", "q"}
		x := c22RandFrom(rng, a, 40)
		return x, c22Mutate(rng, x, a, 1+rng.Intn(5))
	},
	"only-newlines": func(rng *rand.Rand) (string, string) {
		return strings.Repeat("\n", rng.Intn(12)), strings.Repeat("\n", rng.Intn(12))
	},
	"unicode": func(rng *rand.Rand) (string, string) {
		a := []string{"é", "中", "😀", "a", "\n", "é", "ß", " "}
		return c22RandFrom(rng, a, 30), c22RandFrom(rng, a, 30)
	},
	"unicode-mutated-bytes": func(rng *rand.Rand) (string, string) {
		a := []string{"é", "中", "😀", "a", "\n", "ß"}
		x := c22RandFrom(rng, a, 30)
		return x, c22Mutate(rng, x, []string{"\xc3", "\xa9", "a", "\x98", "\n"}, 1+rng.Intn(4))
	},
	"invalid-utf8": func(rng *rand.Rand) (string, string) {
		a := []string{"\xff", "\xc3", "\xa9", "a", "\xe4", "\xb8", "\xad", "\xf0", "\x9f", "\x98", "\x80", "\n", "\xfe", "\xed\xa0\x80", "\xc0\x80", "\xef\xbf\xbd"}
		return c22RandFrom(rng, a, 25), c22RandFrom(rng, a, 25)
	},
	"long-common": func(rng *rand.Rand) (string, string) {
		a := []string{"x", "y", "\n", "é"}
		pre := strings.Repeat(c22RandFrom(rng, a, 5), rng.Intn(300))
		suf := strings.Repeat(c22RandFrom(rng, a, 5), rng.Intn(300))
		return pre + c22RandFrom(rng, a, 10) + suf, pre + c22RandFrom(rng, a, 10) + suf
	},
	"big-many-diffs": func(rng *rand.Rand) (string, string) {
		a := []string{"a", "b", "c", "d", "\n", "é"}
		x := c22RandFrom(rng, a, 600)
		if rng.Intn(2) == 0 {
			return x, c22Mutate(rng, x, a, 50+rng.Intn(200))
		}
		return x, c22RandFrom(rng, a, 600)
	},
	"one-empty": func(rng *rand.Rand) (string, string) {
		a := []string{"a", "\n", "中", "\xff"}
		if rng.Intn(2) == 0 {
			return "", c22RandFrom(rng, a, 10)
		}
		return c22RandFrom(rng, a, 10), ""
	},
}

func TestZZProbeC22Strings(t *testing.T) {
	rng := rand.New(rand.NewSource(22))
	for name, g := range c22Gens {
		n, fails := 0, 0
		iters := 20000
		if name == "big-many-diffs" || name == "long-common" {
			iters = 1500
		}
		for i := 0; i < iters && fails < 3; i++ {
			a, b := g(rng)
			n++
			for _, mode := range []string{"Strings", "Bytes"} {
				var edits []Edit
				func() {
					defer func() {
						if r := recover(); r != nil {
							fails++
							t.Errorf("[%s/%s] PANIC %v: a=%q b=%q", name, mode, r, a, b)
						}
					}()
					if mode == "Strings" {
						edits = Strings(a, b)
					} else {
						edits = Bytes([]byte(a), []byte(b))
					}
				}()
				got, err := c22Apply(a, edits)
				if err != nil || got != b {
					fails++
					t.Errorf("[%s/%s] a=%q b=%q edits=%v got=%q err=%v", name, mode, a, b, edits, got, err)
					continue
				}
				got2, err2 := Apply(a, edits)
				if err2 != nil || got2 != b {
					fails++
					t.Errorf("[%s/%s] pkg Apply: a=%q b=%q edits=%v got=%q err=%v", name, mode, a, b, edits, got2, err2)
				}
				bd := c22Boundaries(a)
				for _, e := range edits {
					if !bd[e.Start] || !bd[e.End] {
						fails++
						t.Errorf("[%s/%s] edit not on rune boundary: a=%q b=%q edit=%v", name, mode, a, b, e)
						break
					}
					if e.Start == e.End && e.New == "" {
						fails++
						t.Errorf("[%s/%s] empty edit: a=%q b=%q edit=%v", name, mode, a, b, e)
					}
				}
				if a == b && len(edits) != 0 {
					fails++
					t.Errorf("[%s/%s] equal texts produced edits", name, mode)
				}
			}
		}
		t.Logf("C22 Strings/Bytes [%s]: %d pairs, %d failures", name, n, fails)
	}
}

func TestZZProbeC22LCS(t *testing.T) {
	rng := rand.New(rand.NewSource(2222))
	for name, g := range c22Gens {
		n, fails := 0, 0
		iters := 10000
		if name == "big-many-diffs" || name == "long-common" {
			iters = 1000
		}
		for i := 0; i < iters && fails < 3; i++ {
			a, b := g(rng)
			n++
			check := func(kind string, ds []lcs.Diff, alen, blen int, build func(ds []lcs.Diff) string) {
				pa := 0
				for _, d := range ds {
					if d.Start < pa || d.End < d.Start || d.End > alen || d.ReplStart > d.ReplEnd || d.ReplEnd > blen {
						fails++
						t.Errorf("[%s/%s] bad diff %v in %v a=%q b=%q", name, kind, d, ds, a, b)
						return
					}
					pa = d.End
				}
				if got := build(ds); got != b {
					fails++
					t.Errorf("[%s/%s] a=%q b=%q diffs=%v got=%q", name, kind, a, b, ds, got)
				}
			}
			check("DiffStrings", lcs.DiffStrings(a, b), len(a), len(b), func(ds []lcs.Diff) string {
				var sb strings.Builder
				last := 0
				for _, d := range ds {
					sb.WriteString(a[last:d.Start])
					sb.WriteString(b[d.ReplStart:d.ReplEnd])
					last = d.End
				}
				sb.WriteString(a[last:])
				return sb.String()
			})
			check("DiffBytes", lcs.DiffBytes([]byte(a), []byte(b)), len(a), len(b), func(ds []lcs.Diff) string {
				var sb strings.Builder
				last := 0
				for _, d := range ds {
					sb.WriteString(a[last:d.Start])
					sb.WriteString(b[d.ReplStart:d.ReplEnd])
					last = d.End
				}
				sb.WriteString(a[last:])
				return sb.String()
			})
			if utf8.ValidString(a) && utf8.ValidString(b) {
				ra, rb := []rune(a), []rune(b)
				check("DiffRunes", lcs.DiffRunes(ra, rb), len(ra), len(rb), func(ds []lcs.Diff) string {
					var out []rune
					last := 0
					for _, d := range ds {
						out = append(out, ra[last:d.Start]...)
						out = append(out, rb[d.ReplStart:d.ReplEnd]...)
						last = d.End
					}
					out = append(out, ra[last:]...)
					return string(out)
				})
			}
		}
		t.Logf("C22 lcs [%s]: %d pairs, %d failures", name, n, fails)
	}
}


type c22Fail struct {
	count      int
	a, b, info string
}

func (f *c22Fail) add(a, b, info string) {
	f.count++
	if f.count == 1 || len(a)+len(b) < len(f.a)+len(f.b) {
		f.a, f.b, f.info = a, b, info
	}
}

func TestZZProbeC22Unified(t *testing.T) {
	rng := rand.New(rand.NewSource(222222))
	fails := map[string]*c22Fail{}
	fail := func(cat, a, b, info string) {
		if fails[cat] == nil {
			fails[cat] = &c22Fail{}
		}
		fails[cat].add(a, b, info)
	}
	total := 0
	for name, g := range c22Gens {
		n := 0
		iters := 6000
		if name == "big-many-diffs" || name == "long-common" {
			iters = 500
		}
		for i := 0; i < iters; i++ {
			a, b := g(rng)
			n++
			u := Unified("a", "b", a, b)
			got, err := c22ApplyUnified(a, u)
			if err != nil || got != b {
				fail("Unified(default ctx=3)", a, b, fmt.Sprintf("patch=%q got=%q err=%v", u, got, err))
			}
			if (a == b) != (u == "") {
				fail("Unified-emptiness", a, b, u)
			}
			edits := Strings(a, b)
			for ctx := 0; ctx <= 4; ctx++ {
				u, err := ToUnified("a", "b", a, edits, ctx)
				if err != nil {
					fail(fmt.Sprintf("ToUnified ctx=%d error", ctx), a, b, err.Error())
					continue
				}
				got, err := c22ApplyUnified(a, u)
				if err != nil || got != b {
					cat := "other"
					if err != nil {
						es := err.Error()
						switch {
						case strings.Contains(es, "to-line"):
							cat = "wrong to-line"
						case strings.Contains(es, "truncated"), strings.Contains(es, "bad record"):
							cat = "count omitted"
						default:
							cat = "other: " + es[:20]
						}
					}
					fail(fmt.Sprintf("ToUnified ctx=%d %s", ctx, cat), a, b, fmt.Sprintf("patch=%q got=%q err=%v", u, got, err))
				}
			}
			le, err := lineEdits(a, edits)
			if err != nil {
				fail("lineEdits error", a, b, err.Error())
				continue
			}
			got, err = c22Apply(a, le)
			if err != nil || got != b {
				fail("lineEdits apply", a, b, fmt.Sprintf("edits=%v lineEdits=%v got=%q err=%v", edits, le, got, err))
			}
			for _, e := range le {
				if e.Start > 0 && a[e.Start-1] != '\n' {
					fail("lineEdits start not at line start", a, b, fmt.Sprint(e))
				}
				if e.End < len(a) && e.End > 0 && a[e.End-1] != '\n' && e.End != e.Start {
					fail("lineEdits end not at line end", a, b, fmt.Sprint(e))
				}
			}
		}
		total += n
		t.Logf("C22 unified/lineEdits [%s]: %d pairs", name, n)
	}
	for cat, f := range fails {
		t.Errorf("FAIL category %q: %d of %d pairs; smallest: a=%q b=%q\n   %s", cat, f.count, total, f.a, f.b, f.info)
	}
}
