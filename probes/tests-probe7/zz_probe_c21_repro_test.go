package lsp

// Minimal reproducers for the C21 findings (need zz_probe_c21_test.go for helpers).
import (
	"testing"

	"wa-lang.org/wa/internal/lsp/protocol"
)

// D21-1: change notifications for .wz documents (Chinese dialect sources) are dropped silently.
func TestZZProbeC21ReproWzIgnored(t *testing.T) {
	const uri = protocol.DocumentURI("file:///p/a.wz")
	s := c21Server()
	c21Open(s, uri, "abc")
	err := c21Change(s, uri, 2, []protocol.TextDocumentContentChangeEvent{{Text: "new text"}})
	if got := s.fileMap[uri.Path()]; err != nil || got != "new text" {
		t.Errorf("after full change of a.wz: stored %q err=%v, want %q", got, err, "new text")
	}
}

// S21-3: a whole-document change inside a list of several changes is rejected (LSP allows it).
func TestZZProbeC21ReproMixedFullChange(t *testing.T) {
	const uri = protocol.DocumentURI("file:///p/a.wa")
	s := c21Server()
	c21Open(s, uri, "abc")
	r := protocol.Range{End: protocol.Position{Character: 1}}
	err := c21Change(s, uri, 2, []protocol.TextDocumentContentChangeEvent{{Range: &r, Text: "X"}, {Text: "whole"}})
	if got := s.fileMap[uri.Path()]; err != nil || got != "whole" {
		t.Errorf("stored %q err=%v, want %q", got, err, "whole")
	}
}

// S21-4: a lone CR is a line terminator for LSP clients; the server counts only LF,
// and because (line == number of lines, character 0) is accepted as EOF the edit lands at EOF.
func TestZZProbeC21ReproLoneCR(t *testing.T) {
	const uri = protocol.DocumentURI("file:///p/a.wa")
	s := c21Server()
	c21Open(s, uri, "a\rb")
	r := protocol.Range{Start: protocol.Position{Line: 1}, End: protocol.Position{Line: 1}}
	err := c21Change(s, uri, 2, []protocol.TextDocumentContentChangeEvent{{Range: &r, Text: "X"}})
	if got := s.fileMap[uri.Path()]; got != "a\rXb" {
		t.Errorf("stored %q err=%v, want %q (or an error and unchanged text)", got, err, "a\rXb")
	}
}
