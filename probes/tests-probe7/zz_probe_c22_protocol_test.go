package protocol

// Probe C22/C21: diff edits -> LSP TextEdits -> applied by an independent UTF-16 client model.
// Place in internal/lsp/protocol/.
import (
	"math/rand"
	"strings"
	"testing"
	"unicode/utf16"

	"wa-lang.org/wa/internal/lsp/diff"
)

func zzLines(u []uint16) (starts, ends []int) {
	starts = append(starts, 0)
	for i := 0; i < len(u); i++ {
		if u[i] == '\n' {
			e := i
			if i > 0 && u[i-1] == '\r' {
				e = i - 1
			}
			ends = append(ends, e)
			starts = append(starts, i+1)
		}
	}
	ends = append(ends, len(u))
	return
}

func zzOffset(u []uint16, p Position) (int, bool) {
	s, e := zzLines(u)
	if int(p.Line) >= len(s) {
		return 0, false
	}
	if int(p.Character) > e[p.Line]-s[p.Line] {
		return 0, false
	}
	return s[p.Line] + int(p.Character), true
}

// apply all edits relative to the original document (LSP TextEdit[] semantics)
func zzApplyTextEdits(text string, edits []TextEdit) (string, bool) {
	u := utf16.Encode([]rune(text))
	var out []uint16
	last := 0
	for _, e := range edits {
		s, ok := zzOffset(u, e.Range.Start)
		if !ok {
			return "", false
		}
		en, ok := zzOffset(u, e.Range.End)
		if !ok || en < s || s < last {
			return "", false
		}
		out = append(out, u[last:s]...)
		out = append(out, utf16.Encode([]rune(e.NewText))...)
		last = en
	}
	out = append(out, u[last:]...)
	return string(utf16.Decode(out)), true
}

func zzRand(rng *rand.Rand, alpha []string, maxn int) string {
	var sb strings.Builder
	for i, n := 0, rng.Intn(maxn+1); i < n; i++ {
		sb.WriteString(alpha[rng.Intn(len(alpha))])
	}
	return sb.String()
}

func TestZZProbeC22ProtocolEdits(t *testing.T) {
	rng := rand.New(rand.NewSource(5))
	for _, mode := range []string{"LF", "CRLF-consistent", "mixed"} {
		alpha := []string{"a", "b", "é", "中", "😀", " ", "\n"}
		switch mode {
		case "CRLF-consistent":
			alpha = []string{"a", "b", "é", "中", "😀", " ", "\r\n"}
		case "mixed":
			alpha = []string{"a", "b", "é", "😀", "\n", "\r\n"}
		}
		n, fails, pkgFails := 0, 0, 0
		var ex string
		for i := 0; i < 30000; i++ {
			a, b := zzRand(rng, alpha, 20), zzRand(rng, alpha, 20)
			n++
			m := NewMapper("file:///x.wa", []byte(a))
			edits := diff.Strings(a, b)
			te, err := EditsFromDiffEdits(m, edits)
			if err != nil {
				t.Fatalf("EditsFromDiffEdits(%q,%q): %v", a, b, err)
			}
			got, ok := zzApplyTextEdits(a, te)
			if !ok || got != b {
				fails++
				if ex == "" || len(a)+len(b) < len(ex) {
					_ = ex
				}
				if fails == 1 {
					t.Logf("[%s] client-side apply differs: a=%q b=%q diffEdits=%v textEdits=%v got=%q ok=%v", mode, a, b, edits, te, got, ok)
				}
			}
			out, _, err := ApplyEdits(m, te)
			if err != nil || string(out) != b {
				pkgFails++
				if pkgFails == 1 {
					t.Logf("[%s] ApplyEdits differs: a=%q b=%q textEdits=%v got=%q err=%v", mode, a, b, te, out, err)
				}
			}
		}
		t.Logf("C22 protocol edits [%s]: %d pairs, %d client-apply divergences, %d ApplyEdits divergences", mode, n, fails, pkgFails)
		if mode != "mixed" && (fails > 0 || pkgFails > 0) {
			t.Errorf("[%s] divergences", mode)
		}
	}
}
