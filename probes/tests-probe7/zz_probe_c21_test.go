package lsp

// Probe C21: LSP document sync vs. an independent UTF-16 reference model.
// Place in internal/lsp/ and run: go test -run ZZProbeC21 ./internal/lsp/

import (
	"context"
	"fmt"
	"math/rand"
	"strings"
	"testing"
	"unicode/utf16"
	"unicode/utf8"

	"wa-lang.org/wa/internal/lsp/protocol"
)

// ---- reference model (UTF-16 code units) ----

type refDoc struct {
	u       []uint16
	crIsEOL bool // treat lone CR as a line terminator (LSP spec) or not
}

func newRef(s string, crIsEOL bool) *refDoc {
	return &refDoc{u: utf16.Encode([]rune(s)), crIsEOL: crIsEOL}
}
func (d *refDoc) String() string { return string(utf16.Decode(d.u)) }

// lines returns for each line its start index and the index of its terminator (content end).
func (d *refDoc) lines() (starts, ends []int) {
	starts = append(starts, 0)
	for i := 0; i < len(d.u); i++ {
		switch {
		case d.u[i] == '\n':
			ends = append(ends, i)
			starts = append(starts, i+1)
		case d.u[i] == '\r' && i+1 < len(d.u) && d.u[i+1] == '\n':
			ends = append(ends, i)
			starts = append(starts, i+2)
			i++
		case d.u[i] == '\r' && d.crIsEOL:
			ends = append(ends, i)
			starts = append(starts, i+1)
		}
	}
	ends = append(ends, len(d.u))
	return
}

func (d *refDoc) offset(p protocol.Position) (int, bool) {
	starts, ends := d.lines()
	if int(p.Line) >= len(starts) {
		return 0, false
	}
	n := ends[p.Line] - starts[p.Line]
	if int(p.Character) > n {
		return 0, false
	}
	return starts[p.Line] + int(p.Character), true
}

func (d *refDoc) apply(r protocol.Range, text string) bool {
	s, ok := d.offset(r.Start)
	if !ok {
		return false
	}
	e, ok := d.offset(r.End)
	if !ok || e < s {
		return false
	}
	t := utf16.Encode([]rune(text))
	nu := make([]uint16, 0, len(d.u)+len(t))
	nu = append(nu, d.u[:s]...)
	nu = append(nu, t...)
	nu = append(nu, d.u[e:]...)
	d.u = nu
	return true
}

// posOf returns the Position of a unit index (must not be inside a CRLF).
func (d *refDoc) posOf(idx int) protocol.Position {
	starts, ends := d.lines()
	for l := len(starts) - 1; l >= 0; l-- {
		if idx >= starts[l] {
			if idx > ends[l] {
				idx = ends[l]
			}
			return protocol.Position{Line: uint32(l), Character: uint32(idx - starts[l])}
		}
	}
	return protocol.Position{}
}

// isBoundary: idx is not in the middle of a surrogate pair nor between CR and LF.
func (d *refDoc) isBoundary(idx int) bool {
	if idx <= 0 || idx >= len(d.u) {
		return true
	}
	if utf16.IsSurrogate(rune(d.u[idx])) && d.u[idx] >= 0xDC00 {
		return false
	}
	if d.u[idx] == '\n' && d.u[idx-1] == '\r' {
		return false
	}
	return true
}

var c21Alphabet = []string{"a", "b", " ", "\t", "é", "中", "😀", "𝄞", " ", "\n", "\n", "\r\n", "x", "}", "ß", "\U0010FFFF", "�"}

func c21RandText(rng *rand.Rand, maxn int, withCR bool) string {
	n := rng.Intn(maxn + 1)
	var sb strings.Builder
	for i := 0; i < n; i++ {
		if withCR && rng.Intn(8) == 0 {
			sb.WriteString("\r")
			continue
		}
		sb.WriteString(c21Alphabet[rng.Intn(len(c21Alphabet))])
	}
	return sb.String()
}

func c21RandBoundary(rng *rand.Rand, d *refDoc) int {
	for {
		i := rng.Intn(len(d.u) + 1)
		if d.isBoundary(i) {
			return i
		}
	}
}

func c21Server() *LSPServer { return NewLSPServer(nil) }

func c21Change(s *LSPServer, uri protocol.DocumentURI, ver int32, ch []protocol.TextDocumentContentChangeEvent) (err error) {
	defer func() {
		if r := recover(); r != nil {
			err = fmt.Errorf("PANIC: %v", r)
		}
	}()
	return s.DidChange(context.Background(), &protocol.DidChangeTextDocumentParams{
		TextDocument:   protocol.VersionedTextDocumentIdentifier{Version: ver, TextDocumentIdentifier: protocol.TextDocumentIdentifier{URI: uri}},
		ContentChanges: ch,
	})
}

func c21Open(s *LSPServer, uri protocol.DocumentURI, text string) {
	s.DidOpen(context.Background(), &protocol.DidOpenTextDocumentParams{
		TextDocument: protocol.TextDocumentItem{URI: uri, Version: 1, Text: text},
	})
}

func TestZZProbeC21Valid(t *testing.T) {
	rng := rand.New(rand.NewSource(21))
	const uri = protocol.DocumentURI("file:///tmp/probe/a.wa")
	fails := 0
	nseq, nnotif, nchanges := 0, 0, 0
	for seq := 0; seq < 6000 && fails < 10; seq++ {
		nseq++
		s := c21Server()
		init := c21RandText(rng, 30, false)
		if seq%17 == 0 {
			init = ""
		}
		c21Open(s, uri, init)
		ref := newRef(init, false)
		var history []string
		for step := 0; step < 12; step++ {
			nnotif++
			var ch []protocol.TextDocumentContentChangeEvent
			before := ref.String()
			if rng.Intn(10) == 0 {
				txt := c21RandText(rng, 30, false)
				ch = append(ch, protocol.TextDocumentContentChangeEvent{Text: txt})
				ref = newRef(txt, false)
				history = append(history, fmt.Sprintf("FULL %q", txt))
			} else {
				k := 1 + rng.Intn(4)
				for j := 0; j < k; j++ {
					nchanges++
					a := c21RandBoundary(rng, ref)
					b := c21RandBoundary(rng, ref)
					if a > b {
						a, b = b, a
					}
					if rng.Intn(3) == 0 {
						b = a
					}
					r := protocol.Range{Start: ref.posOf(a), End: ref.posOf(b)}
					txt := c21RandText(rng, 6, false)
					rr := r
					ch = append(ch, protocol.TextDocumentContentChangeEvent{Range: &rr, Text: txt})
					if !ref.apply(r, txt) {
						t.Fatalf("reference rejected own range %v", r)
					}
					history = append(history, fmt.Sprintf("INC %v %q", r, txt))
				}
			}
			err := c21Change(s, uri, int32(step+2), ch)
			got := s.fileMap[uri.Path()]
			if err != nil || got != ref.String() {
				fails++
				t.Errorf("seq %d step %d: init=%q before=%q\n history=%v\n err=%v\n got =%q\n want=%q", seq, step, init, before, history, err, got, ref.String())
				break
			}
		}
	}
	t.Logf("C21 valid: %d sequences, %d notifications, %d incremental changes, %d failures", nseq, nnotif, nchanges, fails)
}

// Invalid ranges must be rejected with an error and leave the stored text unchanged.
func TestZZProbeC21Invalid(t *testing.T) {
	rng := rand.New(rand.NewSource(2121))
	const uri = protocol.DocumentURI("file:///tmp/probe/b.wa")
	fails, n := 0, 0
	kinds := map[string]int{}
	for seq := 0; seq < 20000 && fails < 15; seq++ {
		s := c21Server()
		init := c21RandText(rng, 20, false)
		c21Open(s, uri, init)
		ref := newRef(init, false)
		two := rng.Intn(2) == 0
		a0 := c21RandBoundary(rng, ref)
		validR := protocol.Range{Start: ref.posOf(a0), End: ref.posOf(a0)}
		if two {
			ref.apply(validR, "VALID")
		}
		starts, ends := ref.lines()
		// one valid change followed by an invalid one (computed against the text after the valid one)
		var ch []protocol.TextDocumentContentChangeEvent
		mk := func(r protocol.Range, txt string) protocol.TextDocumentContentChangeEvent {
			rr := r
			return protocol.TextDocumentContentChangeEvent{Range: &rr, Text: txt}
		}
		valid := mk(validR, "VALID")
		var bad protocol.Range
		kind := ""
		l := rng.Intn(len(starts))
		linelen := ends[l] - starts[l]
		crlf := ends[l]+1 < len(ref.u) && ref.u[ends[l]] == '\r'
		switch rng.Intn(5) {
		case 0:
			kind = "line-beyond"
			p := protocol.Position{Line: uint32(len(starts) + 1 + rng.Intn(3)), Character: 0}
			bad = protocol.Range{Start: p, End: p}
		case 1:
			kind = "char-beyond"
			extra := 1 + rng.Intn(3)
			if crlf {
				extra++
			}
			p := protocol.Position{Line: uint32(l), Character: uint32(linelen + extra)}
			bad = protocol.Range{Start: ref.posOf(starts[l]), End: p}
		case 2:
			kind = "end-before-start"
			if len(ref.u) == 0 {
				continue
			}
			x := c21RandBoundary(rng, ref)
			y := c21RandBoundary(rng, ref)
			if x == y {
				continue
			}
			if x < y {
				x, y = y, x
			}
			bad = protocol.Range{Start: ref.posOf(x), End: ref.posOf(y)}
			if bad.Start == bad.End {
				continue
			}
		case 3:
			kind = "huge"
			p := protocol.Position{Line: 0xFFFFFFFF, Character: 0xFFFFFFFF}
			bad = protocol.Range{Start: p, End: p}
		case 4:
			kind = "line-eq-count-char-nonzero"
			p := protocol.Position{Line: uint32(len(starts)), Character: uint32(1 + rng.Intn(3))}
			bad = protocol.Range{Start: p, End: p}
		}
		kinds[kind]++
		if two {
			ch = []protocol.TextDocumentContentChangeEvent{valid, mk(bad, "BAD")}
		} else {
			ch = []protocol.TextDocumentContentChangeEvent{mk(bad, "BAD")}
		}
		n++
		err := c21Change(s, uri, 2, ch)
		got := s.fileMap[uri.Path()]
		if err == nil || strings.HasPrefix(fmt.Sprint(err), "PANIC") || got != init {
			fails++
			t.Errorf("kind=%s init=%q changes: bad=%v (n=%d) err=%v got=%q (want error, unchanged)", kind, init, bad, len(ch), err, got)
		}
	}
	t.Logf("C21 invalid: %d cases %v, %d failures", n, kinds, fails)
}

// Mapper round trips: offset -> position -> offset for every rune boundary; and reference agreement.
func TestZZProbeC21Mapper(t *testing.T) {
	rng := rand.New(rand.NewSource(77))
	n, fails := 0, 0
	for i := 0; i < 20000 && fails < 10; i++ {
		txt := c21RandText(rng, 25, false)
		m := protocol.NewMapper("file:///x.wa", []byte(txt))
		ref := newRef(txt, false)
		// walk each rune boundary
		u16 := 0
		for off := 0; off <= len(txt); {
			n++
			pos, err := m.OffsetPosition(off)
			inCRLF := off > 0 && off < len(txt) && txt[off-1] == '\r' && txt[off] == '\n'
			want := ref.posOf(u16)
			if inCRLF {
				want = ref.posOf(u16 - 1)
			}
			if err != nil || pos != want {
				fails++
				t.Errorf("OffsetPosition(%q,%d)=%v,%v want %v", txt, off, pos, err, want)
			}
			if !inCRLF {
				back, err := m.PositionOffset(pos)
				if err != nil || back != off {
					fails++
					t.Errorf("PositionOffset(%q,%v)=%v,%v want %d", txt, pos, back, err, off)
				}
			}
			if off == len(txt) {
				break
			}
			r, sz := utf8.DecodeRuneInString(txt[off:])
			off += sz
			u16++
			if r >= 0x10000 {
				u16++
			}
		}
	}
	t.Logf("C21 mapper: %d offsets checked, %d failures", n, fails)
}
