package dap

// Probe C26: DAP message encode/decode and Content-Length framing. Place in internal/3rdparty/go-dap/.
import (
	"bufio"
	"bytes"
	"encoding/json"
	"fmt"
	"io"
	"math/rand"
	"reflect"
	"sort"
	"strings"
	"testing"
	"testing/iotest"
	"time"
)

var zzStrings = []string{"", "a", "hello world", "中文😀", "\r\n\r\n", "Content-Length: 5\r\n\r\n{}", "\"quoted\"\\", "<&>", "  ", "\x00\x01\x1f", "tab\there", "é", strings.Repeat("x", 300)}

func zzRandString(rng *rand.Rand) string {
	if rng.Intn(3) == 0 {
		return zzStrings[rng.Intn(len(zzStrings))] + zzStrings[rng.Intn(len(zzStrings))]
	}
	return zzStrings[rng.Intn(len(zzStrings))]
}

func zzRandIface(rng *rand.Rand, depth int) interface{} {
	switch rng.Intn(6) {
	case 0:
		return zzRandString(rng)
	case 1:
		return float64(rng.Intn(1000)) / 4
	case 2:
		return rng.Intn(2) == 0
	case 3:
		if depth > 0 {
			return map[string]interface{}{"k" + zzRandString(rng): zzRandIface(rng, depth-1)}
		}
		return "leaf"
	case 4:
		if depth > 0 {
			return []interface{}{zzRandIface(rng, depth-1), zzRandIface(rng, depth-1)}
		}
		return float64(1)
	}
	return "s"
}

var rawMessageType = reflect.TypeOf(json.RawMessage{})

func zzFill(rng *rand.Rand, v reflect.Value, depth int) {
	switch v.Kind() {
	case reflect.String:
		v.SetString(zzRandString(rng))
	case reflect.Bool:
		v.SetBool(rng.Intn(2) == 0)
	case reflect.Int, reflect.Int64, reflect.Int32:
		switch rng.Intn(4) {
		case 0:
			v.SetInt(0)
		case 1:
			v.SetInt(int64(rng.Intn(100)))
		case 2:
			v.SetInt(-int64(rng.Intn(100000)))
		default:
			v.SetInt(int64(rng.Int31()))
		}
	case reflect.Float64:
		v.SetFloat(float64(rng.Intn(1000)) / 8)
	case reflect.Ptr:
		if depth <= 0 || rng.Intn(3) == 0 {
			return // nil
		}
		v.Set(reflect.New(v.Type().Elem()))
		zzFill(rng, v.Elem(), depth-1)
	case reflect.Struct:
		for i := 0; i < v.NumField(); i++ {
			if v.Field(i).CanSet() {
				zzFill(rng, v.Field(i), depth)
			}
		}
	case reflect.Slice:
		if v.Type() == rawMessageType {
			raws := []string{`{"a":1}`, `[1,2,"x"]`, `"str"`, `{"program":"中文\r\n\r\n","n":[true,null]}`, `12`}
			v.SetBytes([]byte(raws[rng.Intn(len(raws))]))
			return
		}
		if depth <= 0 || rng.Intn(3) == 0 {
			return // nil
		}
		n := 1 + rng.Intn(3)
		s := reflect.MakeSlice(v.Type(), n, n)
		for i := 0; i < n; i++ {
			zzFill(rng, s.Index(i), depth-1)
		}
		v.Set(s)
	case reflect.Map:
		if rng.Intn(3) == 0 {
			return
		}
		m := reflect.MakeMap(v.Type())
		n := 1 + rng.Intn(3)
		for i := 0; i < n; i++ {
			k := reflect.New(v.Type().Key()).Elem()
			zzFill(rng, k, depth-1)
			e := reflect.New(v.Type().Elem()).Elem()
			zzFill(rng, e, depth-1)
			if e.Kind() == reflect.Interface && e.IsNil() {
				e.Set(reflect.ValueOf("nonnil"))
			}
			m.SetMapIndex(k, e)
		}
		v.Set(m)
	case reflect.Interface:
		if rng.Intn(4) == 0 {
			return
		}
		v.Set(reflect.ValueOf(zzRandIface(rng, 2)))
	default:
		panic("unhandled kind " + v.Kind().String() + " " + v.Type().String())
	}
}

type zzKind struct {
	kind, name string
	ctor       messageCtor
}

func zzAllKinds() []zzKind {
	var ks []zzKind
	for k, c := range requestCtor {
		ks = append(ks, zzKind{"request", k, c})
	}
	for k, c := range responseCtor {
		ks = append(ks, zzKind{"response", k, c})
	}
	for k, c := range eventCtor {
		ks = append(ks, zzKind{"event", k, c})
	}
	sort.Slice(ks, func(i, j int) bool { return ks[i].kind+ks[i].name < ks[j].kind+ks[j].name })
	return ks
}

func zzMake(rng *rand.Rand, k zzKind) Message {
	m := k.ctor()
	v := reflect.ValueOf(m).Elem()
	zzFill(rng, v, 3)
	// protocol discriminators
	switch k.kind {
	case "request":
		r := v.FieldByName("Request")
		r.FieldByName("ProtocolMessage").FieldByName("Type").SetString("request")
		r.FieldByName("Command").SetString(k.name)
	case "response":
		r := v.FieldByName("Response")
		r.FieldByName("ProtocolMessage").FieldByName("Type").SetString("response")
		r.FieldByName("Command").SetString(k.name)
		r.FieldByName("Success").SetBool(true)
	case "event":
		r := v.FieldByName("Event")
		r.FieldByName("ProtocolMessage").FieldByName("Type").SetString("event")
		r.FieldByName("Event").SetString(k.name)
	}
	return m
}

type zzChunk struct {
	data []byte
	rng  *rand.Rand
	max  int
}

func (c *zzChunk) Read(p []byte) (int, error) {
	if len(c.data) == 0 {
		return 0, io.EOF
	}
	n := 1 + c.rng.Intn(c.max)
	if n > len(p) {
		n = len(p)
	}
	if n > len(c.data) {
		n = len(c.data)
	}
	copy(p, c.data[:n])
	c.data = c.data[n:]
	return n, nil
}

func TestZZProbeC26RoundTrip(t *testing.T) {
	rng := rand.New(rand.NewSource(26))
	kinds := zzAllKinds()
	t.Logf("registered: %d message kinds", len(kinds))
	failsByKind := map[string]string{}
	n := 0
	for round := 0; round < 120; round++ {
		// one stream with all kinds in random order
		perm := rng.Perm(len(kinds))
		var stream bytes.Buffer
		var sent []Message
		var sentKinds []zzKind
		for _, i := range perm {
			m := zzMake(rng, kinds[i])
			if err := WriteProtocolMessage(&stream, m); err != nil {
				t.Fatalf("write %s %s: %v", kinds[i].kind, kinds[i].name, err)
			}
			sent = append(sent, m)
			sentKinds = append(sentKinds, kinds[i])
		}
		var src io.Reader
		switch round % 4 {
		case 0:
			src = bytes.NewReader(stream.Bytes())
		case 1:
			src = iotest.OneByteReader(bytes.NewReader(stream.Bytes()))
		case 2:
			src = &zzChunk{data: stream.Bytes(), rng: rng, max: 1 + rng.Intn(50)}
		case 3:
			src = iotest.DataErrReader(&zzChunk{data: stream.Bytes(), rng: rng, max: 7})
		}
		br := bufio.NewReaderSize(src, 16+rng.Intn(5000))
		for i := range sent {
			n++
			got, err := ReadProtocolMessage(br)
			key := sentKinds[i].kind + ":" + sentKinds[i].name
			if err != nil {
				if _, dup := failsByKind[key]; !dup {
					js, _ := json.Marshal(sent[i])
					failsByKind[key] = fmt.Sprintf("read error %v; sent=%s", err, js)
				}
				break // stream position is lost
			}
			if !reflect.DeepEqual(got, sent[i]) {
				if _, dup := failsByKind[key]; !dup {
					js, _ := json.Marshal(sent[i])
					js2, _ := json.Marshal(got)
					failsByKind[key] = fmt.Sprintf("not equal:\n   sent=%s\n   got =%s\n   sent=%#v\n   got =%#v", js, js2, sent[i], got)
				}
			}
		}
		if _, err := ReadProtocolMessage(br); err != io.EOF {
			t.Errorf("after last message: err=%v want EOF", err)
		}
	}
	t.Logf("C26 round trip: %d messages over %d kinds, %d kinds with divergences", n, len(kinds), len(failsByKind))
	var keys []string
	for k := range failsByKind {
		keys = append(keys, k)
	}
	sort.Strings(keys)
	for _, k := range keys {
		s := failsByKind[k]
		if len(s) > 1500 {
			s = s[:1500] + "..."
		}
		t.Errorf("%s: %s", k, s)
	}
}

// Every split position of a two-message stream.
func TestZZProbeC26EverySplit(t *testing.T) {
	rng := rand.New(rand.NewSource(2626))
	kinds := zzAllKinds()
	n := 0
	for it := 0; it < 40; it++ {
		a, b := zzMake(rng, kinds[rng.Intn(len(kinds))]), zzMake(rng, kinds[rng.Intn(len(kinds))])
		var stream bytes.Buffer
		WriteProtocolMessage(&stream, a)
		WriteProtocolMessage(&stream, b)
		data := stream.Bytes()
		for cut := 0; cut <= len(data); cut++ {
			n++
			src := io.MultiReader(bytes.NewReader(data[:cut]), bytes.NewReader(data[cut:]))
			br := bufio.NewReader(src)
			g1, e1 := ReadProtocolMessage(br)
			g2, e2 := ReadProtocolMessage(br)
			_, e3 := ReadProtocolMessage(br)
			if e1 != nil || e2 != nil || e3 != io.EOF || !reflect.DeepEqual(g1, a) || !reflect.DeepEqual(g2, b) {
				// tolerate the known per-kind divergences: only report framing errors
				if e1 != nil || e2 != nil || e3 != io.EOF {
					t.Fatalf("cut=%d e1=%v e2=%v e3=%v", cut, e1, e2, e3)
				}
			}
		}
	}
	t.Logf("C26 every-split: %d (stream, cut) pairs", n)
}

func zzReadWithTimeout(data []byte) (msgs []string, err error) {
	done := make(chan struct{})
	go func() {
		defer func() {
			if r := recover(); r != nil {
				err = fmt.Errorf("PANIC %v", r)
			}
			close(done)
		}()
		br := bufio.NewReader(bytes.NewReader(data))
		for {
			var b []byte
			b, err = ReadBaseMessage(br)
			if err != nil {
				return
			}
			msgs = append(msgs, string(b))
		}
	}()
	select {
	case <-done:
	case <-time.After(3 * time.Second):
		return nil, fmt.Errorf("HANG")
	}
	return
}

func TestZZProbeC26Framing(t *testing.T) {
	// base messages with arbitrary bodies
	rng := rand.New(rand.NewSource(262626))
	n := 0
	for it := 0; it < 5000; it++ {
		var stream bytes.Buffer
		var want []string
		for k, m := 0, 1+rng.Intn(4); k < m; k++ {
			body := zzRandString(rng) + zzRandString(rng)
			if rng.Intn(10) == 0 {
				body = ""
			}
			if rng.Intn(50) == 0 {
				body = strings.Repeat("y", 100000+rng.Intn(100000))
			}
			want = append(want, body)
			WriteBaseMessage(&stream, []byte(body))
		}
		n++
		br := bufio.NewReaderSize(&zzChunk{data: stream.Bytes(), rng: rng, max: 1 + rng.Intn(40)}, 16)
		for i, w := range want {
			got, err := ReadBaseMessage(br)
			if err != nil || string(got) != w {
				t.Fatalf("msg %d: got %q err=%v want %q", i, got, err, w)
			}
		}
		if _, err := ReadBaseMessage(br); err != io.EOF {
			t.Fatalf("trailing: %v", err)
		}
	}
	t.Logf("C26 base framing: %d streams", n)

	cases := []struct{ name, data string }{
		{"ok", "Content-Length: 2\r\n\r\n{}"},
		{"lower-case header", "content-length: 2\r\n\r\n{}"},
		{"no space", "Content-Length:2\r\n\r\n{}"},
		{"two spaces", "Content-Length:  2\r\n\r\n{}"},
		{"trailing space", "Content-Length: 2 \r\n\r\n{}"},
		{"extra header before", "Content-Type: application/json\r\nContent-Length: 2\r\n\r\n{}"},
		{"extra header after", "Content-Length: 2\r\nContent-Type: x\r\n\r\n{}"},
		{"LF only", "Content-Length: 2\n\n{}"},
		{"missing header", "{}"},
		{"missing header with CR", "{}\r\n\r\n"},
		{"negative", "Content-Length: -1\r\n\r\n{}"},
		{"plus", "Content-Length: +2\r\n\r\n{}"},
		{"huge", "Content-Length: 99999999999999999999999\r\n\r\n{}"},
		{"over 4MiB", "Content-Length: 4194305\r\n\r\n{}"},
		{"too long by one", "Content-Length: 3\r\n\r\n{}"},
		{"too short then next", "Content-Length: 1\r\n\r\n{}Content-Length: 2\r\n\r\n{}"},
		{"zero", "Content-Length: 0\r\n\r\nContent-Length: 2\r\n\r\n{}"},
		{"header only", "Content-Length: 2\r\n\r\n"},
		{"cut in delimiter", "Content-Length: 2\r\n\r"},
		{"empty", ""},
		{"leading CRLF", "\r\nContent-Length: 2\r\n\r\n{}"},
		{"hex", "Content-Length: 0x2\r\n\r\n{}"},
		{"leading zeros", "Content-Length: 0002\r\n\r\n{}"},
	}
	for _, c := range cases {
		msgs, err := zzReadWithTimeout([]byte(c.data))
		t.Logf("%-24s msgs=%q err=%v", c.name, msgs, err)
		if err != nil && (strings.HasPrefix(err.Error(), "PANIC") || err.Error() == "HANG") {
			t.Errorf("%s: %v", c.name, err)
		}
	}
	// a body of more than 4 MiB can be written but not read back
	big := bytes.Repeat([]byte("z"), contentMaxLength+1)
	var s bytes.Buffer
	WriteBaseMessage(&s, big)
	_, err := ReadBaseMessage(bufio.NewReader(&s))
	t.Logf("write %d bytes then read: err=%v", len(big), err)
}

func TestZZProbeC26DecodeMalformed(t *testing.T) {
	rng := rand.New(rand.NewSource(7))
	pieces := []string{"{", "}", "\"type\"", ":", "\"request\"", "\"response\"", "\"event\"", ",", "\"command\"", "\"launch\"", "\"seq\"", "1", "null", "[", "]", "\"arguments\"", "\"success\"", "true", "false", "\"event\"", "\"stopped\"", "\"body\"", "\"x\"", "-", "1e999"}
	n := 0
	for i := 0; i < 200000; i++ {
		var sb strings.Builder
		for k, m := 0, rng.Intn(14); k < m; k++ {
			sb.WriteString(pieces[rng.Intn(len(pieces))])
		}
		n++
		func() {
			defer func() {
				if r := recover(); r != nil {
					t.Fatalf("PANIC on %q: %v", sb.String(), r)
				}
			}()
			m, err := DecodeProtocolMessage([]byte(sb.String()))
			if err == nil && m == nil {
				t.Fatalf("nil message without error for %q", sb.String())
			}
		}()
	}
	t.Logf("C26 decode malformed: %d inputs, no panic", n)
}
