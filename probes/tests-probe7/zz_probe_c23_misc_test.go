package token

import "testing"

func TestZZProbeC23Misc(t *testing.T) {
	fset := NewFileSet()
	f := fset.AddFileWithCap("a.wa", -1, 3, 100)
	f.SetLinesForContent([]byte("a\nb"))
	fset.AddFile("b.wa", -1, 2)
	t.Logf("ToJavaScript:\n%s", fset.ToJavaScript())

	f2 := NewFileSet()
	if err := f2.FromJson(fset.ToJson()); err != nil {
		t.Fatal(err)
	}
	var g *File
	f2.Iterate(func(x *File) bool { g = x; return false })
	t.Logf("capacity before json=%d after json=%d", f.Cap(), g.Cap())
	func() {
		defer func() {
			if r := recover(); r != nil {
				t.Errorf("updating a deserialized file within its reserved capacity panics: %v", r)
			}
		}()
		g.SetLinesForContent([]byte("a\nbcd\ne")) // 7 bytes <= reserved 100
	}()
}
