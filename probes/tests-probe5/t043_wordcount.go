package main

// twin: auto
type Entry struct {
	word  string
	count int
	pos   []int
}

func isLetter(c byte) bool {
	return (c >= 'a' && c <= 'z') || (c >= 'A' && c <= 'Z')
}

func lower(s string) string {
	b := []byte(s)
	for i, c := range b {
		if c >= 'A' && c <= 'Z' {
			b[i] = c + 32
		}
	}
	return string(b)
}

func split(text string) []string {
	var out []string
	start := -1
	for i := 0; i <= len(text); i++ {
		if i < len(text) && isLetter(text[i]) {
			if start < 0 {
				start = i
			}
		} else if start >= 0 {
			out = append(out, lower(text[start:i]))
			start = -1
		}
	}
	return out
}

func sortEntries(es []*Entry) {
	for i := 1; i < len(es); i++ {
		for j := i; j > 0; j-- {
			a, b := es[j-1], es[j]
			if a.count < b.count || (a.count == b.count && a.word > b.word) {
				es[j-1], es[j] = b, a
			} else {
				break
			}
		}
	}
}

func main() {
	text := "The quick brown fox jumps over the lazy dog. The dog barks; the fox runs away! " +
		"A quick brown dog? No: a lazy fox. THE END the end The End"
	big := ""
	for i := 0; i < 40; i++ {
		big += text + " "
	}
	words := split(big)
	idx := make(map[string]*Entry)
	byLen := make(map[int][]string)
	seenLen := make(map[int]map[string]bool)
	for i, w := range words {
		e, ok := idx[w]
		if !ok {
			e = &Entry{word: w}
			idx[w] = e
		}
		e.count++
		e.pos = append(e.pos, i)
		l := len(w)
		if seenLen[l] == nil {
			seenLen[l] = make(map[string]bool)
		}
		if !seenLen[l][w] {
			seenLen[l][w] = true
			byLen[l] = append(byLen[l], w)
		}
	}
	var es []*Entry
	for _, e := range idx {
		es = append(es, e)
	}
	sortEntries(es)
	println(len(words), len(idx), len(es))
	for i := 0; i < 6; i++ {
		println(es[i].word, es[i].count, es[i].pos[0], es[i].pos[len(es[i].pos)-1])
	}
	for l := 1; l <= 6; l++ {
		println(l, len(byLen[l]), len(seenLen[l]))
	}
	// remove all words shorter than 4 letters via a collected key list
	var short []string
	for w := range idx {
		if len(w) < 4 {
			short = append(short, w)
		}
	}
	for _, w := range short {
		delete(idx, w)
	}
	tot := 0
	for _, e := range idx {
		tot += e.count
	}
	println(len(idx), tot)
}
