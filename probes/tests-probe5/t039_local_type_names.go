package main

// twin: auto
func f() int {
	type K struct {
		a int
		b int
	}
	m := make(map[K]string)
	m[K{1, 2}] = "f12"
	m[K{1, 3}] = "f13"
	k := K{1, 2}
	println(m[k], len(m))
	return k.a + k.b
}

func g() int {
	type K struct {
		s string
		t []string
		u int64
	}
	m := make(map[string]K)
	m["x"] = K{s: "gs", t: []string{"a", "b"}, u: 1 << 40}
	k := m["x"]
	println(k.s, len(k.t), k.u)
	return len(k.s)
}

func h() int {
	type K string
	m := make(map[K]int)
	m[K("a")] = 1
	m["b"] = 2
	println(len(m), m["a"])
	if true {
		type K struct {
			f float64
		}
		n := make(map[K]bool)
		n[K{1.5}] = true
		println(len(n), n[K{1.5}], n[K{2.5}])
	}
	return len(m)
}

func main() {
	println(f(), g(), h())
}
