package main

// twin: auto
type Tree struct {
	key   int
	val   string
	left  *Tree
	right *Tree
}

var seed uint32 = 99

func rnd() int {
	seed = seed*1664525 + 1013904223
	return int((seed >> 8) & 0x7fffff)
}

func itoa(n int) string {
	if n == 0 {
		return "0"
	}
	s := ""
	for n > 0 {
		s = string(rune('0'+n%10)) + s
		n /= 10
	}
	return s
}

func insert(t *Tree, k int, v string) *Tree {
	if t == nil {
		return &Tree{key: k, val: v}
	}
	if k < t.key {
		t.left = insert(t.left, k, v)
	} else if k > t.key {
		t.right = insert(t.right, k, v)
	} else {
		t.val = v
	}
	return t
}

func minNode(t *Tree) *Tree {
	for t.left != nil {
		t = t.left
	}
	return t
}

func remove(t *Tree, k int) *Tree {
	if t == nil {
		return nil
	}
	if k < t.key {
		t.left = remove(t.left, k)
	} else if k > t.key {
		t.right = remove(t.right, k)
	} else {
		if t.left == nil {
			return t.right
		}
		if t.right == nil {
			return t.left
		}
		m := minNode(t.right)
		t.key, t.val = m.key, m.val
		t.right = remove(t.right, m.key)
	}
	return t
}

func walk(t *Tree, acc []int) []int {
	if t == nil {
		return acc
	}
	acc = walk(t.left, acc)
	acc = append(acc, t.key)
	return walk(t.right, acc)
}

func find(t *Tree, k int) (string, bool) {
	for t != nil {
		if k < t.key {
			t = t.left
		} else if k > t.key {
			t = t.right
		} else {
			return t.val, true
		}
	}
	return "", false
}

func main() {
	var root *Tree
	model := make(map[int]string)
	bad := 0
	for step := 0; step < 30000; step++ {
		k := rnd() % 500
		switch rnd() % 3 {
		case 0:
			v := "v" + itoa(rnd()%1000)
			root = insert(root, k, v)
			model[k] = v
		case 1:
			root = remove(root, k)
			delete(model, k)
		default:
			v, ok := find(root, k)
			mv, mok := model[k]
			if ok != mok || v != mv {
				bad++
			}
		}
		if step%3000 == 0 {
			keys := walk(root, nil)
			if len(keys) != len(model) {
				bad++
			}
			for i := 1; i < len(keys); i++ {
				if keys[i-1] >= keys[i] {
					bad++
				}
			}
			// drop a whole subtree now and then
			if root != nil && root.left != nil {
				for _, kk := range walk(root.left, nil) {
					delete(model, kk)
				}
				root.left = nil
			}
		}
	}
	keys := walk(root, nil)
	sum := 0
	for _, k := range keys {
		sum += k
	}
	println(bad, len(keys), len(model), sum)
}
