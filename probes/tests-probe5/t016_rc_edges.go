package main

// twin: auto
type Node struct {
	name string
	next *Node
	tags []string
}

type R struct {
	w   int
	tag string
	arr [3]string
}

func (this *R) Tag() string { return this.tag }

func itoa(n int) string {
	if n == 0 {
		return "0"
	}
	s := ""
	for n > 0 {
		s = string(rune('0'+n%10)) + s
		n /= 10
	}
	return s
}

func mkR(i int) R {
	return R{w: i, tag: "tag" + itoa(i), arr: [3]string{"a" + itoa(i), "b" + itoa(i), "c" + itoa(i)}}
}

func mkSlice(i int) []string {
	return []string{"s" + itoa(i), "t" + itoa(i), "u" + itoa(i)}
}

func mkMap(i int) map[string][]string {
	m := make(map[string][]string)
	m["k"] = mkSlice(i)
	m["j"] = mkSlice(i + 1)
	return m
}

func mkNode(i int) *Node {
	return &Node{name: "n" + itoa(i), tags: mkSlice(i)}
}

func churn(n int) int {
	// allocate and drop garbage so that freed blocks are recycled
	t := 0
	for i := 0; i < n; i++ {
		s := "garbage" + itoa(i)
		b := []string{s, s + "x"}
		m := make(map[string]string)
		m[s] = b[1]
		t += len(m[s])
	}
	return t
}

func join(xs []string) string {
	r := ""
	for i, x := range xs {
		if i > 0 {
			r += ","
		}
		r += x
	}
	return r
}

func main() {
	// swap
	a, b := "alpha"+itoa(1), "beta"+itoa(2)
	a, b = b, a
	churn(50)
	println(a, b)

	// temporaries
	println(mkR(3).tag, mkR(4).arr[1], mkSlice(5)[2], mkMap(6)["j"][0], mkNode(7).tags[1], mkNode(8).name)
	println((itoa(12) + itoa(34))[1:3], len(mkMap(1)), len(mkR(9).tag))
	churn(50)

	// range over temporaries
	for i, s := range mkSlice(10) {
		churn(5)
		println(i, s)
	}
	for _, c := range "x" + itoa(77) {
		churn(3)
		print(c, " ")
	}
	println()
	for _, v := range mkMap(11)["k"] {
		churn(3)
		print(v, " ")
	}
	println()

	// self assignment, list walking
	s := mkSlice(20)
	s = s
	s = s[1:]
	churn(20)
	println(join(s))
	head := mkNode(0)
	head.next = mkNode(1)
	head.next.next = mkNode(2)
	head.next.next.next = mkNode(3)
	p := head
	p = p.next
	head = nil
	churn(50)
	println(p.name, p.next.name, p.next.next.name)
	p.next = p.next.next
	churn(50)
	println(p.name, p.next.name, p.next.next == nil)
	p = p.next
	p = p
	churn(50)
	println(p.name, join(p.tags))

	// struct copy through pointers, incl. self copy
	r1 := mkR(30)
	r2 := mkR(31)
	pr1, pr2 := &r1, &r2
	*pr1 = *pr1
	churn(30)
	println(pr1.tag, pr1.arr[2])
	*pr1 = *pr2
	pr2.tag = "changed"
	pr2.arr[0] = "changed0"
	churn(30)
	println(r1.tag, r1.arr[0], r2.tag, r2.arr[0])

	// element swaps
	arr := [3]string{"x" + itoa(1), "y" + itoa(2), "z" + itoa(3)}
	arr[0], arr[2] = arr[2], arr[0]
	sl := mkSlice(40)
	sl[0], sl[1] = sl[1], sl[0]
	m := make(map[string]string)
	m["a"] = "va" + itoa(1)
	m["b"] = "vb" + itoa(2)
	m["a"], m["b"] = m["b"], m["a"]
	churn(30)
	println(arr[0], arr[1], arr[2], join(sl), m["a"], m["b"])

	// append aliasing element while growing
	g := make([]string, 0, 1)
	g = append(g, "first"+itoa(0))
	for i := 0; i < 20; i++ {
		g = append(g, g[0]+itoa(i))
		g = append(g, g[len(g)-1])
	}
	churn(30)
	println(len(g), g[0], g[1], g[39], g[40])

	// overlapping copies with ref elements
	c1 := []string{"c" + itoa(0), "c" + itoa(1), "c" + itoa(2), "c" + itoa(3), "c" + itoa(4)}
	copy(c1[1:], c1)
	churn(30)
	println(join(c1))
	c2 := []string{"d" + itoa(0), "d" + itoa(1), "d" + itoa(2), "d" + itoa(3), "d" + itoa(4)}
	copy(c2, c2[2:])
	churn(30)
	println(join(c2))
	c3 := []string{"e" + itoa(0), "e" + itoa(1), "e" + itoa(2), "e" + itoa(3)}
	c3 = append(c3[:0], c3[1:]...)
	churn(30)
	println(join(c3))
	c4 := []string{"f" + itoa(0), "f" + itoa(1), "f" + itoa(2), "f" + itoa(3)}
	c4 = append(c4[:1], c4[2:]...)
	churn(30)
	println(join(c4), len(c4))
	c5 := [][]string{mkSlice(1), mkSlice(2), mkSlice(3)}
	copy(c5[1:], c5)
	c5[0][0] = "shared"
	churn(30)
	println(join(c5[0]), join(c5[1]), join(c5[2]))

	// string <-> bytes
	st := "hello" + itoa(5)
	bs := []byte(st)
	bs[0] = 'J'
	st2 := string(bs)
	bs[1] = 'E'
	churn(30)
	println(st, st2, string(bs))

	// sub-slice outliving parent
	var sub []string
	{
		parent := mkSlice(50)
		parent = append(parent, "extra"+itoa(1))
		sub = parent[1:3]
		parent = nil
	}
	churn(50)
	println(join(sub), len(sub), cap(sub) >= 2)
	var subs string
	{
		long := "0123456789" + itoa(123456)
		subs = long[8:13]
	}
	churn(50)
	println(subs)

	// interface boxing copies
	r3 := mkR(60)
	var e interface{} = r3
	r3.tag = "mutated"
	r3.arr[1] = "mutated1"
	churn(30)
	r4 := e.(R)
	e = nil
	churn(30)
	println(r4.tag, r4.arr[1], r3.tag)
	var e2 interface{} = mkSlice(61)
	x2 := e2.([]string)
	e2 = 5
	churn(30)
	println(join(x2))

	// map lookups outliving deletion / overwrite
	mm := mkMap(70)
	v1 := mm["k"]
	delete(mm, "k")
	v2 := mm["j"]
	mm["j"] = mkSlice(99)
	churn(50)
	println(join(v1), join(v2), join(mm["j"]), len(mm))
	mm = nil
	churn(50)
	println(join(v1), join(v2))

	ms := make(map[string]R)
	ms["a"] = mkR(80)
	ra := ms["a"]
	ms["a"] = mkR(81)
	delete(ms, "a")
	churn(50)
	println(ra.tag, ra.arr[2], len(ms))

	// closure captures
	fs := make([]func() string, 0)
	for i := 0; i < 3; i++ {
		loc := "cap" + itoa(i)
		sl2 := mkSlice(i)
		fs = append(fs, func() string {
			loc += "!"
			return loc + sl2[1]
		})
	}
	churn(50)
	println(fs[0](), fs[1](), fs[2](), fs[0]())

	// nil things
	var nm map[string]string
	var ns []string
	println(len(nm), nm["x"] == "", len(ns))
	ns = append(ns, "one"+itoa(1))
	_, ok := nm["q"]
	println(ok, ns[0])
	for k := range nm {
		println("never", k)
	}
}
