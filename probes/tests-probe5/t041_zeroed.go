package main

// twin: auto
type T struct {
	a int
	s string
	p *T
	xs []int
	m map[string]int
	e interface{}
	arr [5]int64
	f float64
}

func dirty(n int) {
	// fill blocks of many sizes with non-zero bytes and drop them
	for i := 0; i < n; i++ {
		b := make([]uint8, 1+i%300)
		for j := range b {
			b[j] = 0xFF
		}
		w := make([]int64, 1+i%40)
		for j := range w {
			w[j] = -1
		}
		t := &T{a: -1, s: "x", f: 1.5}
		t.arr[4] = -1
	}
}

func main() {
	bad := 0
	for round := 0; round < 20; round++ {
		dirty(200)
		for n := 1; n < 300; n += 7 {
			b := make([]uint8, n)
			for _, v := range b {
				if v != 0 {
					bad++
				}
			}
			w := make([]int64, n%50, n%50+10)
			w = w[:cap(w)]
			for _, v := range w {
				if v != 0 {
					bad++
				}
			}
			ss := make([]string, n%20+1)
			for _, v := range ss {
				if v != "" || len(v) != 0 {
					bad++
				}
			}
			ps := make([]*T, n%20+1)
			for _, v := range ps {
				if v != nil {
					bad++
				}
			}
		}
		t := new(T)
		u := &T{a: 1}
		var v T
		if t.a != 0 || t.s != "" || t.p != nil || t.xs != nil || t.m != nil || t.e != nil || t.arr[3] != 0 || t.f != 0 {
			bad++
		}
		if u.s != "" || u.p != nil || len(u.xs) != 0 || u.m != nil || u.e != nil || u.arr[4] != 0 || u.f != 0 {
			bad++
		}
		if v.a != 0 || v.s != "" || v.p != nil || v.arr[0] != 0 {
			bad++
		}
		// append growth: spare capacity must read as zero
		var g []int64
		for i := 0; i < 37; i++ {
			g = append(g, 7)
		}
		sp := g[len(g):cap(g)]
		for _, x := range sp {
			if x != 0 {
				bad++
			}
		}
		var gs []string
		for i := 0; i < 13; i++ {
			gs = append(gs, "v")
		}
		for _, x := range gs[len(gs):cap(gs)] {
			if x != "" {
				bad++
			}
		}
		var arr [64]int
		var arr2 [8]string
		for _, x := range arr {
			bad += x
		}
		for _, x := range arr2 {
			bad += len(x)
		}
		m := make(map[string]T)
		if m["none"].a != 0 || m["none"].s != "" || m["none"].arr[2] != 0 {
			bad++
		}
	}
	println("bad", bad)
}
