package main

// twin: auto
type T struct {a int }
type U struct {b int }

func describe(e interface{}) string {
	switch e.(type) {
	case nil:
		return "nil"
	case *T:
		return "*T"
	case *U:
		return "*U"
	}
	return "other"
}

func main() {
	var pt *T
	var pu *U
	var e1 interface{} = pt
	var e2 interface{} = pu
	println(e1 == nil, e2 == nil, e1 == e2)
	println(describe(e1), describe(e2), describe(nil))
	x := &U{}
	var e3 interface{} = x
	var e4 interface{} = &x.b
	println(e3 == e4)
}
