package main

// twin: auto
func main() {
	s := make([]int, 4, 10)
	s[0], s[1], s[2], s[3] = 10, 20, 30, 40
	// insert-by-shifting idiom: source overlaps the destination, source starts lower
	t := append(s[:1], s[0:4]...)
	println(len(t), t[0], t[1], t[2], t[3], t[4])

	w := make([]string, 3, 8)
	w[0], w[1], w[2] = "a", "b", "c"
	v := append(w[:2], w[1:3]...)
	println(len(v), v[0], v[1], v[2], v[3])

	// insert x at position 1 using the classic one-liner
	q := make([]int, 5, 16)
	for i := range q {
		q[i] = i + 1
	}
	q = append(q[:2], q[1:]...)
	q[1] = 99
	println(len(q), q[0], q[1], q[2], q[3], q[4], q[5])
}
