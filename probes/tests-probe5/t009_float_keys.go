package main

var seed uint32 = 99

func rnd() int {
	seed = seed*1664525 + 1013904223
	return int((seed >> 8) & 0x7fffff)
}

func fk(i int) float64 {
	if i == 0 {
		return 0.0
	}
	if i == 1 {
		z := 0.0
		return -z
	}
	if i == 2 {
		big := 1e308
		return big * 10 // +Inf
	}
	if i == 3 {
		big := -1e308
		return big * 10 // -Inf
	}
	if i == 4 {
		return 5e-324 // smallest denormal
	}
	if i == 5 {
		return -5e-324
	}
	return (float64(i) - 500.0) * 0.37
}

func main() {
	const N = 1000
	m := make(map[float64]int)
	m32 := make(map[float32]int)
	present := make([]bool, N)
	val := make([]int, N)
	cnt, bad := 0, 0
	for step := 0; step < 30000; step++ {
		i := rnd() % N
		c := i
		if c == 1 {
			c = 0
		}
		op := rnd() % 10
		if op < 4 {
			v := rnd()
			m[fk(i)] = v
			m32[float32(fk(i))] = v
			if !present[c] {
				present[c] = true
				cnt++
			}
			val[c] = v
		} else if op < 7 {
			delete(m, fk(i))
			if present[c] {
				present[c] = false
				cnt--
			}
		} else {
			v, ok := m[fk(i)]
			if ok != present[c] || (ok && v != val[c]) {
				bad++
				println("mismatch", step, i)
			}
			if len(m) != cnt {
				bad++
				println("len mismatch", len(m), cnt)
			}
		}
		if bad > 10 {
			break
		}
	}
	n := 0
	for k, v := range m {
		n++
		if m[k] != v {
			bad++
		}
	}
	println("bad", bad, len(m), cnt, n)
	println(len(m32) > 0)

	mz := make(map[float64]string)
	mz[fk(0)] = "pz"
	mz[fk(1)] = "nz"
	println(len(mz), mz[0.0])
	mz[fk(2)] = "pinf"
	mz[fk(3)] = "ninf"
	println(len(mz), mz[fk(2)], mz[fk(3)])
	mz[fk(4)] = "pden"
	mz[fk(5)] = "nden"
	println(len(mz), mz[fk(4)], mz[fk(5)], mz[0.0])

	mb := make(map[bool]int)
	println(len(mb), mb[true], mb[false])
	mb[true] = 1
	mb[false] = 2
	mb[true] += 10
	println(len(mb), mb[true], mb[false])
	delete(mb, true)
	_, ok := mb[true]
	println(len(mb), ok, mb[false])

	m64 := make(map[int64]int)
	mu64 := make(map[uint64]int)
	for i := 0; i < 64; i++ {
		m64[int64(1)<<uint32(i)] = i
		mu64[uint64(1)<<uint32(i)] = i
	}
	m64[-1] = -1
	m64[-9223372036854775808] = 63
	mu64[18446744073709551615] = 100
	b2 := 0
	for i := 0; i < 64; i++ {
		if m64[int64(1)<<uint32(i)] != i {
			b2++
		}
		if mu64[uint64(1)<<uint32(i)] != i {
			b2++
		}
	}
	println(len(m64), len(mu64), b2, m64[-1], mu64[18446744073709551615])

	m8 := make(map[uint8]int)
	for i := 0; i < 1000; i++ {
		m8[uint8(i)] += i
	}
	println(len(m8), m8[0], m8[255], m8[231])
	m16 := make(map[uint16]int)
	for i := 0; i < 70000; i += 7 {
		m16[uint16(i)]++
	}
	println(len(m16), m16[0], m16[7], m16[65534])
	mu := make(map[uint32]int)
	mu[0xffffffff] = 1
	mu[0x7fffffff] = 2
	mu[0x80000000] = 3
	mu[0] = 4
	println(len(mu), mu[0xffffffff], mu[0x7fffffff], mu[0x80000000], mu[0])
}
