package main

// twin: auto
func itoa(n int) string {
	if n == 0 {
		return "0"
	}
	s := ""
	for n > 0 {
		s = string(rune('0'+n%10)) + s
		n /= 10
	}
	return s
}

func sum(xs []int) int {
	t := 0
	for _, x := range xs {
		t += x
	}
	return t
}

func modify(xs []int) {
	for i := range xs {
		xs[i] *= 2
	}
}

func grow(xs []int) []int {
	return append(xs, 1000)
}

func main() {
	// explicit capacities so aliasing is defined identically
	a := make([]int, 3, 10)
	a[0], a[1], a[2] = 1, 2, 3
	b := append(a, 4)
	c := append(a, 5)
	println(b[3], c[3], len(a), len(b), cap(b))
	d := a[1:2]
	d = append(d, 99)
	println(a[2], b[2], len(d), cap(d))
	e := a[1:2:2]
	e = append(e, 77)
	println(a[2], e[1], len(e))
	modify(a[:2])
	println(a[0], a[1], a[2], b[0])
	f := grow(a[:1])
	println(f[1], a[1], len(f))
	full := make([]int, 4, 4)
	g := grow(full)
	g[0] = 5
	println(full[0], g[0], len(g), g[4])

	// big growth
	var big []int
	for i := 0; i < 1000000; i++ {
		big = append(big, i&15)
	}
	println(len(big), sum(big), big[999999])
	big = big[500000:]
	big = append(big[:10], big[499990:]...)
	println(len(big), sum(big))

	// slices of strings growth with aliases retained
	var ss []string
	var snaps [][]string
	for i := 0; i < 2000; i++ {
		ss = append(ss, "v"+itoa(i))
		if i%250 == 0 {
			snaps = append(snaps, ss)
		}
	}
	tot := 0
	for _, sn := range snaps {
		tot += len(sn)
		if sn[len(sn)-1] != "v"+itoa(len(sn)-1) {
			println("bad snapshot")
		}
	}
	println(tot, ss[1999], len(snaps))

	// 3-index, zero-length, nil vs empty
	var nilS []int
	empty := []int{}
	z := a[2:2]
	println(nilS == nil, empty == nil, len(z), cap(z), len(nilS[0:0]))
	z = append(z, 42)
	println(a[2], z[0])

	// copy semantics
	src := []string{"a", "b", "c", "d"}
	dst := make([]string, 2)
	n := copy(dst, src)
	println(n, dst[0], dst[1])
	bs := make([]byte, 5)
	n = copy(bs, "hello world")
	println(n, string(bs))

	// array <-> slice aliasing
	arr := [5]int{1, 2, 3, 4, 5}
	sl := arr[1:4]
	sl[0] = 20
	arr[2] = 30
	arr2 := arr
	arr2[1] = 99
	println(arr[1], sl[1], arr2[1], len(sl), cap(sl))
	pa := &arr
	sl2 := pa[:]
	sl2[4] = 50
	println(arr[4], pa[4])

	// 2D
	grid := make([][]string, 3)
	for i := range grid {
		grid[i] = make([]string, 3)
		for j := range grid[i] {
			grid[i][j] = itoa(i*3 + j)
		}
	}
	row := grid[1]
	grid[1] = grid[2]
	row[0] = "R"
	println(grid[1][0], grid[2][0], row[0], row[2])
}
