package main

// twin: auto
func main() {
	m8 := make(map[int8]int)
	m16 := make(map[int16]int)
	for i := -300; i <= 300; i++ {
		m8[int8(i)]++
		m16[int16(i*200)]++
	}
	println(len(m8), m8[-128], m8[127], m8[0], m8[44])
	println(len(m16), m16[-32768], m16[0], m16[200], m16[-200])
	var e interface{} = int8(-1)
	var f interface{} = uint8(255)
	println(e == f)
	mi := map[interface{}]string{int8(-1): "int8", uint8(255): "uint8", int16(-1): "int16", uint16(65535): "uint16"}
	println(len(mi), mi[int8(-1)], mi[uint8(255)], mi[int16(-1)], mi[uint16(65535)])
}
