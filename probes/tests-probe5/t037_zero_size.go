package main

// twin: auto
type E struct {}

type W struct {
	e E
	z [0]int
}

func main() {
	m := make(map[E]int)
	println(len(m), m[E{}])
	m[E{}] = 1
	m[E{}]++
	var e E
	m[e] += 10
	println(len(m), m[E{}])
	delete(m, e)
	_, ok := m[E{}]
	println(len(m), ok)

	mz := make(map[[0]int]string)
	mz[[0]int{}] = "a"
	mz[[0]int{}] += "b"
	println(len(mz), mz[[0]int{}])

	mw := make(map[W]int)
	mw[W{}] = 5
	var w W
	mw[w]++
	println(len(mw), mw[W{}])

	mi := make(map[interface{}]string)
	mi[E{}] = "E"
	mi[W{}] = "W"
	mi[[0]int{}] = "arr0"
	mi[struct{}{}] = "anon"
	println(len(mi), mi[E{}], mi[W{}], mi[[0]int{}], mi[struct{}{}])

	vals := make(map[int]E)
	vals[1] = E{}
	vals[2] = e
	_, ok1 := vals[1]
	_, ok3 := vals[3]
	println(len(vals), ok1, ok3)
	for k, v := range vals {
		if v != e {
			println("bad", k)
		}
	}
	ps := make(map[*E]int)
	p1, p2 := &E{}, &E{}
	ps[p1] = 1
	ps[p2] = 2
	ps[p1] += 5
	println(ps[p1])
}
