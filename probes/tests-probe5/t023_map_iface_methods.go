package main

// twin: auto
type Shape interface {
	Area() int
	Name() string
}

type Rect struct {
	w, h int
}

type Circle struct {
	r int
}

func (this *Rect) Area() int    { return this.w * this.h }
func (this *Rect) Name() string { return "rect" }
func (this *Circle) Area() int    { return 3 * this.r * this.r }
func (this *Circle) Name() string { return "circle" }

func main() {
	r1 := &Rect{2, 3}
	r2 := &Rect{2, 3}
	c1 := &Circle{1}
	byShape := make(map[Shape]string)
	byShape[r1] = "r1"
	byShape[r2] = "r2"
	byShape[c1] = "c1"
	byShape[r1] = "r1b"
	println(len(byShape), byShape[r1], byShape[r2], byShape[c1])
	var s Shape = r2
	println(byShape[s])
	delete(byShape, s)
	_, ok := byShape[r2]
	println(len(byShape), ok)
	var ns Shape
	byShape[ns] = "nil"
	println(len(byShape), byShape[nil])

	byName := make(map[string]Shape)
	byName["a"] = r1
	byName["b"] = c1
	byName["c"] = &Rect{5, 5}
	tot := 0
	for _, k := range []string{"a", "b", "c", "d"} {
		if sh, ok := byName[k]; ok {
			tot += sh.Area()
			print(sh.Name(), " ")
		} else {
			println(sh == nil)
		}
	}
	println(tot)
	any := make(map[string]interface{})
	any["shape"] = byName["c"]
	any["n"] = 7
	if sh, ok := any["shape"].(Shape); ok {
		println(sh.Area(), sh.Name())
	}
	_, ok = any["n"].(Shape)
	println(ok)
	// set with empty struct values
	set := make(map[string]struct{})
	for _, w := range []string{"a", "b", "a", "c", "b", "a"} {
		set[w] = struct{}{}
	}
	_, hasA := set["a"]
	_, hasZ := set["z"]
	println(len(set), hasA, hasZ)
	delete(set, "a")
	println(len(set))
	// map of funcs
	ops := make(map[string]func(a, b int) int)
	ops["add"] = func(a, b int) int { return a + b }
	ops["mul"] = func(a, b int) int { return a * b }
	k := 10
	ops["addk"] = func(a, b int) int { return a + b + k }
	k = 20
	println(ops["add"](3, 4), ops["mul"](3, 4), ops["addk"](3, 4), ops["none"] == nil)
}
