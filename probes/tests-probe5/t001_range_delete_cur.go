package main

func main() {
	m := make(map[int]int)
	for i := 0; i < 10; i++ {
		m[i] = i * 10
	}
	visits := 0
	sum := 0
	for k, v := range m {
		visits++
		sum += v
		delete(m, k)
	}
	println("visits", visits, "sum", sum, "len", len(m))
}
