package main

// twin: auto
type Inner struct {
	s string
	a [3]string
	sl []string
}

type Box struct {
	name string
	in   Inner
	ip   *Inner
	kids []*Box
}

type Holder struct {
	b *Box
}

func itoa(n int) string {
	if n == 0 {
		return "0"
	}
	s := ""
	for n > 0 {
		s = string(rune('0'+n%10)) + s
		n /= 10
	}
	return s
}

func churn(n int) int {
	t := 0
	for i := 0; i < n; i++ {
		s := "garbage" + itoa(i)
		b := []string{s, s + "x"}
		bx := &Box{name: s, in: Inner{s: s, sl: b}}
		bx.in.a[1] = s
		t += len(bx.in.s)
	}
	return t
}

func mkBox(i int) *Box {
	b := &Box{name: "box" + itoa(i)}
	b.in.s = "in" + itoa(i)
	b.in.a[0] = "a0_" + itoa(i)
	b.in.a[1] = "a1_" + itoa(i)
	b.in.sl = []string{"sl0_" + itoa(i), "sl1_" + itoa(i)}
	b.ip = &Inner{s: "ip" + itoa(i)}
	b.ip.a[2] = "ipa2_" + itoa(i)
	return b
}

var gh Holder

func keepFirst() *Inner {
	var keep *Inner
	for i := 0; i < 4; i++ {
		b := mkBox(i)
		q := &b.in
		if i == 0 {
			keep = q
		}
		churn(10)
	}
	churn(30)
	return keep
}

func keepFirstStr() *string {
	var keep *string
	for i := 0; i < 4; i++ {
		b := mkBox(i)
		if i == 1 {
			keep = &b.in.a[1]
		}
		churn(10)
	}
	churn(30)
	return keep
}

func viaGlobal() string {
	gh.b = mkBox(100)
	p := &gh.b.in
	q := gh.b.ip
	r := &gh.b.ip.a[2]
	gh.b = mkBox(101)
	churn(40)
	return p.s + " " + q.s + " " + *r + " " + p.a[1]
}

func viaLoopLoad() string {
	h := &Holder{}
	var first *Inner
	var firstsl []string
	var firstarr []string
	for i := 0; i < 5; i++ {
		h.b = mkBox(200 + i)
		in := &h.b.in
		if i == 0 {
			first = in
			firstsl = h.b.in.sl
			firstarr = h.b.in.a[:]
		}
		churn(10)
	}
	churn(40)
	return first.s + " " + first.a[0] + " " + firstsl[1] + " " + firstarr[1]
}

func closureCap() func() string {
	var f func() string
	for i := 0; i < 3; i++ {
		b := mkBox(300 + i)
		in := &b.in
		s := &b.ip.a[2]
		if i == 0 {
			f = func() string {
				return in.s + " " + *s
			}
		}
		churn(10)
	}
	churn(30)
	return f
}

func ifaceCap() interface{} {
	var e interface{}
	for i := 0; i < 3; i++ {
		b := mkBox(400 + i)
		if i == 0 {
			e = &b.in
		}
		churn(10)
	}
	churn(30)
	return e
}

func mapCap() map[string]*Inner {
	m := make(map[string]*Inner)
	for i := 0; i < 3; i++ {
		b := mkBox(500 + i)
		m[itoa(i)] = &b.in
		m["ip"+itoa(i)] = b.ip
		churn(10)
	}
	churn(30)
	return m
}

func sliceCap() []*Inner {
	var s []*Inner
	for i := 0; i < 3; i++ {
		b := mkBox(600 + i)
		s = append(s, &b.in)
		churn(10)
	}
	churn(30)
	return s
}

func deferCap() (r string) {
	for i := 0; i < 3; i++ {
		b := mkBox(700 + i)
		in := &b.in
		defer func() {
			r += in.s + ";"
		}()
		defer func(p *Inner) {
			r += p.a[1] + ";"
		}(&b.in)
		churn(10)
	}
	churn(30)
	return "r:"
}

func structVal() string {
	// Field on struct values (borrowed) held across reassignments of the source
	var keep Inner
	var keeps string
	boxes := []Box{*mkBox(800), *mkBox(801)}
	for i := 0; i < 2; i++ {
		bv := boxes[i]
		if i == 0 {
			keep = bv.in
			keeps = bv.in.a[1]
		}
		boxes[i] = *mkBox(810 + i)
		churn(10)
	}
	boxes = nil
	churn(30)
	return keep.s + " " + keep.sl[0] + " " + keeps
}

func kidsWalk() string {
	root := mkBox(900)
	for i := 0; i < 3; i++ {
		root.kids = append(root.kids, mkBox(901+i))
	}
	var last *Inner
	for _, k := range root.kids {
		last = &k.in
		churn(5)
	}
	root.kids = nil
	root = nil
	churn(30)
	return last.s + " " + last.sl[1]
}

func main() {
	k := keepFirst()
	println(k.s, k.a[0], k.sl[1])
	ks := keepFirstStr()
	println(*ks)
	println(viaGlobal())
	println(viaLoopLoad())
	f := closureCap()
	churn(20)
	println(f())
	e := ifaceCap()
	churn(20)
	println(e.(*Inner).s, e.(*Inner).a[1])
	m := mapCap()
	churn(20)
	println(m["0"].s, m["1"].a[0], m["2"].sl[1], m["ip0"].s, m["ip2"].a[2])
	s := sliceCap()
	churn(20)
	println(s[0].s, s[1].a[1], s[2].sl[0])
	println(deferCap())
	println(structVal())
	println(kidsWalk())
}
