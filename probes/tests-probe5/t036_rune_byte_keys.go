package main

// twin: auto
func main() {
	m := make(map[interface{}]string)
	var r rune = 'a'
	var i int32 = 97
	var b byte = 7
	var u uint8 = 7
	m[r] = "rune"
	m[i] = "int32"
	m[b] = "byte"
	m[u] = "uint8"
	println(len(m), m[r], m[i], m[b], m[u])
	var e1 interface{} = r
	var e2 interface{} = i
	println(e1 == e2)
	_, isI32 := e1.(int32)
	_, isRune := e2.(rune)
	println(isI32, isRune)
	i = r // rune is an alias of int32: assignable without conversion
	mr := make(map[rune]int)
	for _, c := range "hello, 世界 hello" {
		mr[c]++
	}
	println(len(mr), mr['l'], mr['世'], mr[int32(111)])
}
