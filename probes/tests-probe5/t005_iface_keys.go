package main

type A int
type B int
type S1 struct{ a int32 }
type S2 struct{ a int32 }

func main() {
	m := make(map[interface{}]string)
	m[int(1)] = "int1"
	m[A(1)] = "A1"
	m[B(1)] = "B1"
	m[int32(1)] = "i32_1"
	m[int64(1)] = "i64_1"
	m[uint8(1)] = "u8_1"
	m[uint32(1)] = "u32_1"
	m[float64(1)] = "f64_1"
	m[float32(1)] = "f32_1"
	m["1"] = "str1"
	m[true] = "true"
	m[S1{1}] = "S1"
	m[S2{1}] = "S2"
	m['1'] = "rune1"
	println("len", len(m))
	println(m[int(1)], m[A(1)], m[B(1)], m[int32(1)], m[int64(1)], m[uint8(1)], m[uint32(1)], m[float64(1)], m[float32(1)], m["1"], m[true], m[S1{1}], m[S2{1}], m['1'])
	_, ok := m[false]
	println(ok)
	_, ok = m[nil]
	println(ok)
	m[nil] = "nil"
	println(len(m), m[nil])
	delete(m, A(1))
	println(len(m), m[int(1)], m[A(1)] == "", m[B(1)])
}
