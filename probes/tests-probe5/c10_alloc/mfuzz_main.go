package main

import (
	"context"
	"flag"
	"fmt"
	"math/rand"
	"os"
	"sort"

	"wa-lang.org/wa/internal/3rdparty/wazero"
	"wa-lang.org/wa/internal/3rdparty/wazero/api"
	"wa-lang.org/wa/internal/waroot/malloc"
)

// own instantiation of the allocator module so that linear memory is reachable
type heap struct {
	ctx context.Context
	rt  wazero.Runtime
	mod api.Module
}

func newHeap(cfg *malloc.Config) *heap {
	wasm := malloc.NewHeap(cfg).WasmBytes()
	ctx := context.Background()
	rt := wazero.NewRuntime(ctx)
	b := rt.NewHostModuleBuilder("env")
	b = b.NewFunctionBuilder().WithFunc(func(ctx context.Context, m api.Module, v int32) {}).Export("print_i32")
	b = b.NewFunctionBuilder().WithFunc(func(ctx context.Context, m api.Module, v1, v2 int32) {}).Export("print_i32_i32")
	if _, err := b.Instantiate(ctx, rt); err != nil {
		panic(err)
	}
	mod, err := rt.InstantiateModuleFromBinary(ctx, wasm)
	if err != nil {
		panic(err)
	}
	return &heap{ctx, rt, mod}
}
func (h *heap) Close()         { h.rt.Close(h.ctx) }
func (h *heap) Mem() api.Memory { return h.mod.Memory() }
func (h *heap) g(n string) int32 {
	return int32(uint32(h.mod.ExportedGlobal(n).Get(h.ctx)))
}
func (h *heap) Global__heap_base() int32 { return h.g("__heap_base") }
func (h *heap) Global__heap_ptr() int32  { return h.g("__heap_ptr") }
func (h *heap) Global__heap_top() int32  { return h.g("__heap_top") }
func (h *heap) ReadMemoryI32(off int32) int32 {
	v, ok := h.Mem().ReadUint32Le(h.ctx, uint32(off))
	if !ok {
		panic(fmt.Sprintf("read outside memory at %d", off))
	}
	return int32(v)
}
func (h *heap) Malloc(n int32) int32 {
	r, err := h.mod.ExportedFunction("wa_malloc").Call(h.ctx, api.EncodeI32(n))
	if err != nil {
		panic(err)
	}
	return api.DecodeI32(r[0])
}
func (h *heap) Free(p int32) {
	_, err := h.mod.ExportedFunction("wa_free").Call(h.ctx, api.EncodeI32(p))
	if err != nil {
		panic(err)
	}
}

type blk struct {
	ptr, req int32
	pat  byte
}

var fails int

func failf(f string, a ...interface{}) {
	fails++
	if fails < 30 {
		fmt.Printf("VIOLATION: "+f+"\n", a...)
	}
}


func memSize(h *heap) int64 {
	return int64(h.Mem().Size(h.ctx))
}
func memSize0(h *heap) int64 {
	// read via ReadMemoryI32 fails fatally out of range; use heap_top global as proxy
	return int64(uint32(h.Global__heap_top()))
}

func run(cfg malloc.Config, seed int64, steps int, maxReq int32, verbose bool) {
	defer func() {
		if r := recover(); r != nil {
			failf("cfg=%+v seed=%d: panic %v", cfg, seed, r)
		}
	}()
	h := newHeap(&cfg)
	defer h.Close()
	rng := rand.New(rand.NewSource(seed))
	var live []blk
	mem := func() []byte {
		return nil
	}
	_ = mem
	for step := 0; step < steps; step++ {
		if len(live) == 0 || rng.Intn(100) < 55 {
			var req int32
			switch rng.Intn(6) {
			case 0:
				req = int32(rng.Intn(25))
			case 1:
				req = int32(rng.Intn(90))
			case 2:
				req = int32(rng.Intn(300))
			case 3:
				req = []int32{0, 1, 7, 8, 9, 16, 23, 24, 25, 31, 32, 33, 47, 48, 49, 79, 80, 81, 120, 127, 128, 129, 136}[rng.Intn(23)]
			default:
				req = int32(rng.Intn(int(maxReq)))
			}
			p := h.Malloc(req)
			if p == 0 {
				continue
			}
			b := blk{ptr: p, req: req, pat: byte(rng.Intn(255) + 1)}
			// checks
			if p%8 != 0 {
				failf("seed=%d step=%d: ptr %d not 8-aligned", seed, step, p)
			}
			hb := h.Global__heap_base()
			if p < hb+48+8 {
				failf("seed=%d step=%d: ptr %d inside/below free-list headers (base %d)", seed, step, p, hb)
			}
			sz := h.ReadMemoryI32(p - 8)
			if sz < req {
				failf("seed=%d step=%d: block size %d < req %d", seed, step, sz, req)
			}
			if int64(p)+int64(req) > int64(uint32(h.Global__heap_ptr())) {
				failf("seed=%d step=%d: block [%d,+%d) beyond heap_ptr %d", seed, step, p, req, h.Global__heap_ptr())
			}
			if int64(uint32(h.Global__heap_ptr())) > memSize(h) {
				failf("heap_ptr > heap_top")
			}
			for _, o := range live {
				// overlap incl. 8-byte headers
				a0, a1 := int64(p)-8, int64(p)+int64(max32(req, 0))
				b0, b1 := int64(o.ptr)-8, int64(o.ptr)+int64(o.req)
				if a0 < b1 && b0 < a1 {
					failf("seed=%d step=%d: block %d(req %d) overlaps live block %d(req %d)", seed, step, p, req, o.ptr, o.req)
				}
			}
			fill(h, b)
			live = append(live, b)
		} else {
			i := rng.Intn(len(live))
			b := live[i]
			check(h, b, seed, step)
			h.Free(b.ptr)
			live[i] = live[len(live)-1]
			live = live[:len(live)-1]
		}
		if step%257 == 0 {
			for _, b := range live {
				check(h, b, seed, step)
			}
			walk(h, live, seed, step)
		}
	}
	for _, b := range live {
		check(h, b, seed, steps)
	}
	walk(h, live, seed, steps)
	if verbose {
		fmt.Printf("cfg=%+v seed=%d ok live=%d heap_ptr=%d top=%d\n", cfg, seed, len(live), h.Global__heap_ptr(), h.Global__heap_top())
	}
}

func max32(a, b int32) int32 {
	if a > b {
		return a
	}
	return b
}

// walk: every byte in [base+48, heap_ptr) belongs to exactly one live or free block
func walk(h *heap, live []blk, seed int64, step int) {
	type seg struct {
		a, b int64
		kind string
	}
	var segs []seg
	for _, b := range live {
		sz := h.ReadMemoryI32(b.ptr - 8)
		segs = append(segs, seg{int64(b.ptr) - 8, int64(b.ptr) + int64(sz), "live"})
	}
	base := h.Global__heap_base()
	// fixed lists
	for i := int32(0); i < 4; i++ {
		hd := base + 8*i
		n := h.ReadMemoryI32(hd)
		p := h.ReadMemoryI32(hd + 4)
		cnt := int32(0)
		for p != 0 && cnt < 1000000 {
			sz := h.ReadMemoryI32(p)
			segs = append(segs, seg{int64(p), int64(p) + 8 + int64(sz), fmt.Sprintf("fixed%d", i)})
			p = h.ReadMemoryI32(p + 4)
			cnt++
		}
		if cnt != n {
			failf("seed=%d step=%d: fixed list %d count %d != header %d", seed, step, i, cnt, n)
		}
	}
	// l128 ring
	hd := base + 32
	p := h.ReadMemoryI32(hd + 4)
	cnt := 0
	for p != hd && cnt < 10000000 {
		sz := h.ReadMemoryI32(p)
		segs = append(segs, seg{int64(p), int64(p) + 8 + int64(sz), "l128"})
		p = h.ReadMemoryI32(p + 4)
		cnt++
	}
	sort.Slice(segs, func(i, j int) bool { return segs[i].a < segs[j].a })
	pos := int64(base) + 48
	for _, s := range segs {
		if s.a != pos {
			failf("seed=%d step=%d: gap/overlap at %d: next %s block starts %d", seed, step, pos, s.kind, s.a)
			return
		}
		pos = s.b
	}
	if pos != int64(uint32(h.Global__heap_ptr())) {
		failf("seed=%d step=%d: blocks end at %d but heap_ptr %d", seed, step, pos, h.Global__heap_ptr())
	}
}

func fill(h *heap, b blk) {
	m := h.Mem()
	for i := int32(0); i < b.req; i++ {
		m.WriteByte(context.Background(), uint32(b.ptr+i), b.pat)
	}
}

func check(h *heap, b blk, seed int64, step int) {
	m := h.Mem()
	bs, ok := m.Read(context.Background(), uint32(b.ptr), uint32(b.req))
	if !ok {
		failf("seed=%d step=%d: live block %d(req %d) outside linear memory", seed, step, b.ptr, b.req)
		return
	}
	for i, c := range bs {
		if c != b.pat {
			failf("seed=%d step=%d: live block %d(req %d) corrupted at +%d", seed, step, b.ptr, b.req, i)
			return
		}
	}
}

func main() {
	steps := flag.Int("steps", 20000, "")
	seeds := flag.Int("seeds", 10, "")
	flag.Parse()
	cfgs := []malloc.Config{
		{MemoryPages: 1, MemoryPagesMax: 10, StackPtr: 8 << 12, HeapBase: 10 << 12, HeapLFixedCap: 100},
		{MemoryPages: 1, MemoryPagesMax: 10, StackPtr: 8 << 12, HeapBase: 10 << 12, HeapLFixedCap: 0},
		{MemoryPages: 1, MemoryPagesMax: 3, StackPtr: 1024, HeapBase: 2048, HeapLFixedCap: 1},
		{MemoryPages: 2, MemoryPagesMax: 64, StackPtr: 1024, HeapBase: 65536 + 8, HeapLFixedCap: 3},
		{MemoryPages: 1, MemoryPagesMax: 1, StackPtr: 8, HeapBase: 16, HeapLFixedCap: 64},
		{MemoryPages: 4, MemoryPagesMax: 200, StackPtr: 1024, HeapBase: 4096, HeapLFixedCap: 64},
	}
	for ci, cfg := range cfgs {
		for s := 0; s < *seeds; s++ {
			maxReq := int32(2000)
			if ci >= 3 {
				maxReq = 100000
			}
			run(cfg, int64(s*1000+ci), *steps, maxReq, s == 0)
		}
	}
	fmt.Println("total violations:", fails)
	if fails > 0 {
		os.Exit(1)
	}
}
