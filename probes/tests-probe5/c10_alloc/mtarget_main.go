package main

import (
	"context"
	"fmt"

	"wa-lang.org/wa/internal/3rdparty/wazero"
	"wa-lang.org/wa/internal/3rdparty/wazero/api"
	"wa-lang.org/wa/internal/waroot/malloc"
)

// own instantiation of the allocator module so that linear memory is reachable
type heap struct {
	ctx context.Context
	rt  wazero.Runtime
	mod api.Module
}

func newHeap(cfg *malloc.Config) *heap {
	wasm := malloc.NewHeap(cfg).WasmBytes()
	ctx := context.Background()
	rt := wazero.NewRuntime(ctx)
	b := rt.NewHostModuleBuilder("env")
	b = b.NewFunctionBuilder().WithFunc(func(ctx context.Context, m api.Module, v int32) {}).Export("print_i32")
	b = b.NewFunctionBuilder().WithFunc(func(ctx context.Context, m api.Module, v1, v2 int32) {}).Export("print_i32_i32")
	if _, err := b.Instantiate(ctx, rt); err != nil {
		panic(err)
	}
	mod, err := rt.InstantiateModuleFromBinary(ctx, wasm)
	if err != nil {
		panic(err)
	}
	return &heap{ctx, rt, mod}
}
func (h *heap) Close()         { h.rt.Close(h.ctx) }
func (h *heap) Mem() api.Memory { return h.mod.Memory() }
func (h *heap) g(n string) int32 {
	return int32(uint32(h.mod.ExportedGlobal(n).Get(h.ctx)))
}
func (h *heap) Global__heap_base() int32 { return h.g("__heap_base") }
func (h *heap) Global__heap_ptr() int32  { return h.g("__heap_ptr") }
func (h *heap) Global__heap_top() int32  { return h.g("__heap_top") }
func (h *heap) ReadMemoryI32(off int32) int32 {
	v, ok := h.Mem().ReadUint32Le(h.ctx, uint32(off))
	if !ok {
		panic(fmt.Sprintf("read outside memory at %d", off))
	}
	return int32(v)
}
func (h *heap) Malloc(n int32) int32 {
	r, err := h.mod.ExportedFunction("wa_malloc").Call(h.ctx, api.EncodeI32(n))
	if err != nil {
		panic(err)
	}
	return api.DecodeI32(r[0])
}
func (h *heap) Free(p int32) {
	_, err := h.mod.ExportedFunction("wa_free").Call(h.ctx, api.EncodeI32(p))
	if err != nil {
		panic(err)
	}
}

func try(name string, f func()) {
	defer func() {
		if r := recover(); r != nil {
			fmt.Printf("[%s] PANIC: %v\n", name, r)
		}
	}()
	f()
}

func main() {
	// (a) growth asks for ceil(block/64K) pages even when slack exists
	try("a", func() {
		cfg := malloc.Config{MemoryPages: 1, MemoryPagesMax: 2, StackPtr: 1024, HeapBase: 40960, HeapLFixedCap: 64}
		h := newHeap(&cfg)
		p0 := h.Malloc(8) // init
		fmt.Println("[a] first ptr", p0, "heap_ptr", h.Global__heap_ptr(), "top", h.Global__heap_top(), "pages", h.Mem().Size(h.ctx)/65536)
		p := h.Malloc(66000)
		need := int64(h.Global__heap_ptr()) + 8 + 66000
		fmt.Println("[a] malloc(66000) =", p, " end would be", need, " 2 pages =", 2*65536, " pages now", h.Mem().Size(h.ctx)/65536)
	})
	// (a2) fixed disabled, same
	try("a2", func() {
		cfg := malloc.Config{MemoryPages: 1, MemoryPagesMax: 2, StackPtr: 1024, HeapBase: 40960, HeapLFixedCap: 0}
		h := newHeap(&cfg)
		h.Malloc(8)
		p := h.Malloc(66000)
		fmt.Println("[a2] malloc(66000) =", p)
	})
	// (b) > 2GB: signed overflow of heap_ptr + block_size
	try("b", func() {
		cfg := malloc.Config{MemoryPages: 1, MemoryPagesMax: 65536, StackPtr: 1024, HeapBase: 40960, HeapLFixedCap: 64}
		h := newHeap(&cfg)
		p1 := h.Malloc(1 << 30)
		fmt.Println("[b] p1", uint32(p1), "heap_ptr", uint32(h.Global__heap_ptr()), "top", uint32(h.Global__heap_top()), "memsize", h.Mem().Size(h.ctx))
		p2 := h.Malloc(1 << 30)
		fmt.Println("[b] p2", uint32(p2), "heap_ptr", uint32(h.Global__heap_ptr()), "top", uint32(h.Global__heap_top()), "memsize", h.Mem().Size(h.ctx))
		if p2 != 0 {
			end := uint64(uint32(p2)) + (1 << 30)
			fmt.Println("[b] block 2 end", end, "inside memory:", end <= uint64(h.Mem().Size(h.ctx)))
		}
		p3 := h.Malloc(100)
		fmt.Println("[b] p3", uint32(p3), "heap_ptr", uint32(h.Global__heap_ptr()), "memsize", h.Mem().Size(h.ctx))
		if p3 != 0 {
			_, ok := h.Mem().Read(h.ctx, uint32(p3), 100)
			fmt.Println("[b] p3 readable:", ok)
		}
	})
	// (c) exact end: heap_ptr+block == top is refused (>=), harmless but check the 1-page max config
	try("c", func() {
		cfg := malloc.Config{MemoryPages: 1, MemoryPagesMax: 1, StackPtr: 8, HeapBase: 16, HeapLFixedCap: 64}
		h := newHeap(&cfg)
		h.Malloc(8)
		hp := h.Global__heap_ptr()
		n := 65536 - hp - 8
		p := h.Malloc(n)
		fmt.Println("[c] heap_ptr", hp, "request exactly remaining", n, "->", p)
		p = h.Malloc(n - 8)
		fmt.Println("[c] request remaining-8", n-8, "->", p)
	})
	// (d) free-list satisfiable but ring search misses? allocate A(200) B(200) C(200), free A and C, memory full, request 200
	try("d", func() {
		cfg := malloc.Config{MemoryPages: 1, MemoryPagesMax: 1, StackPtr: 8, HeapBase: 16, HeapLFixedCap: 64}
		h := newHeap(&cfg)
		var ps []int32
		for {
			p := h.Malloc(200)
			if p == 0 {
				break
			}
			ps = append(ps, p)
		}
		fmt.Println("[d] allocated", len(ps), "blocks of 200")
		for i := 0; i < len(ps); i += 2 {
			h.Free(ps[i])
		}
		got := 0
		for {
			p := h.Malloc(200)
			if p == 0 {
				break
			}
			got++
		}
		fmt.Println("[d] after freeing", (len(ps)+1)/2, "re-allocated", got)
		// fixed class: request 24 when l24 empty but l128 has 200-byte blocks
		h.Free(ps[1])
		p := h.Malloc(10)
		fmt.Println("[d] malloc(10) from general list:", p != 0)
		// now free all small blocks of one class and ask for a different class: l24 blocks cannot serve l32
	})
	// (e) fixed list blocks are not available to other classes / large requests until flushed
	try("e", func() {
		cfg := malloc.Config{MemoryPages: 1, MemoryPagesMax: 1, StackPtr: 8, HeapBase: 16, HeapLFixedCap: 1000000}
		h := newHeap(&cfg)
		var ps []int32
		for {
			p := h.Malloc(24)
			if p == 0 {
				break
			}
			ps = append(ps, p)
		}
		for _, p := range ps {
			h.Free(p)
		}
		fmt.Println("[e] freed", len(ps), "24-byte blocks; malloc(24) ok:", h.Malloc(24) != 0, " malloc(32):", h.Malloc(32), " malloc(1000):", h.Malloc(1000))
	})
	// (f) malloc(0) twice, distinct, fixed enabled / disabled
	for _, cap := range []int32{0, 64} {
		cap := cap
		try("f", func() {
			cfg := malloc.Config{MemoryPages: 1, MemoryPagesMax: 2, StackPtr: 8, HeapBase: 16, HeapLFixedCap: cap}
			h := newHeap(&cfg)
			a, b := h.Malloc(0), h.Malloc(0)
			h.Free(a)
			c := h.Malloc(0)
			d := h.Malloc(1)
			fmt.Println("[f] cap", cap, "malloc(0) x2:", a, b, "after free:", c, d)
		})
	}
	// (g) negative / huge sizes
	try("g", func() {
		cfg := malloc.Config{MemoryPages: 1, MemoryPagesMax: 2, StackPtr: 8, HeapBase: 16, HeapLFixedCap: 64}
		h := newHeap(&cfg)
		fmt.Println("[g] malloc(1<<30) with max 2 pages:", h.Malloc(1<<30))
		fmt.Println("[g] then malloc(100):", h.Malloc(100))
	})
}
