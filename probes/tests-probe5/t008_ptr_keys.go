package main

type T struct {
	a int32
	b int32
}
type U struct {
	t T
	z int32
}

func main() {
	ps := make([]*T, 0)
	m := make(map[*T]int)
	for i := 0; i < 500; i++ {
		p := &T{a: int32(i)}
		ps = append(ps, p)
		m[p] = i
	}
	bad := 0
	for i, p := range ps {
		if m[p] != i {
			bad++
		}
	}
	for i := 0; i < 500; i += 2 {
		delete(m, ps[i])
	}
	for i, p := range ps {
		v, ok := m[p]
		if (i%2 == 0) == ok {
			bad++
		}
		if ok && v != i {
			bad++
		}
	}
	q := &T{a: 1}
	_, ok := m[q]
	println("bad", bad, "len", len(m), ok)
	var np *T
	m[np] = -1
	println(len(m), m[nil], m[np])

	u := &U{}
	mi := make(map[interface{}]string)
	mi[u] = "u"
	mi[&u.t] = "u.t"
	mi[&u.t.a] = "u.t.a"
	println(len(mi), mi[u], mi[&u.t], mi[&u.t.a])

	var n1 *T
	var n2 *U
	mj := make(map[interface{}]string)
	mj[n1] = "nilT"
	mj[n2] = "nilU"
	mj[nil] = "nil"
	println(len(mj), mj[n1], mj[n2], mj[nil])
	var e1 interface{} = n1
	var e2 interface{} = n2
	println(e1 == e2, e1 == nil, e2 == nil)
}
