package main

// twin: auto
type Item struct {
	id   int
	name string
	deps []int
}

type Queue struct {
	items []*Item
}

func (this *Queue) Push(it *Item) { this.items = append(this.items, it) }
func (this *Queue) Pop() *Item {
	it := this.items[0]
	this.items = this.items[1:]
	return it
}
func (this *Queue) Len() int { return len(this.items) }

type Stack struct {
	data []string
}

func (this *Stack) Push(s string) { this.data = append(this.data, s) }
func (this *Stack) Pop() string {
	s := this.data[len(this.data)-1]
	this.data = this.data[:len(this.data)-1]
	return s
}

func itoa(n int) string {
	if n == 0 {
		return "0"
	}
	s := ""
	for n > 0 {
		s = string(rune('0'+n%10)) + s
		n /= 10
	}
	return s
}

func main() {
	var q Queue
	processed := 0
	sum := 0
	for i := 0; i < 100; i++ {
		q.Push(&Item{id: i, name: "job" + itoa(i)})
	}
	next := 100
	for q.Len() > 0 && processed < 200000 {
		it := q.Pop()
		processed++
		sum += it.id & 7
		if it.id%3 != 0 && next < 150000 {
			q.Push(&Item{id: next, name: it.name[:3] + itoa(next), deps: []int{it.id}})
			next++
			if it.id%5 == 0 {
				q.Push(&Item{id: next, name: "x" + itoa(next), deps: append(it.deps, it.id)})
				next++
			}
		}
	}
	println(processed, q.Len(), sum, next)
	var st Stack
	depth := 0
	maxd := 0
	acc := 0
	for i := 0; i < 100000; i++ {
		if i%7 < 4 {
			st.Push("f" + itoa(i%100))
			depth++
		} else if depth > 0 {
			acc += len(st.Pop())
			depth--
		}
		if depth > maxd {
			maxd = depth
		}
	}
	println(depth, maxd, acc, len(st.data))
	// ring buffer of strings
	ring := make([]string, 16)
	h := 0
	for i := 0; i < 100000; i++ {
		ring[i&15] = "r" + itoa(i)
		h += len(ring[(i+5)&15])
	}
	println(h, ring[0], ring[15])
}
