package main

// twin: auto
// a small expression interpreter: tokenizer, recursive-descent parser building an AST of interface nodes,
// environment chains of maps, closures as builtins
type Node interface {
	Eval(env *Env) Value
	String() string
}

type Value struct {
	kind int // 0 num, 1 str, 2 list, 3 func
	num  int
	str  string
	list []*Value
}

type Env struct {
	vars   map[string]Value
	parent *Env
}

var builtins map[string]func(args []Value) Value

type Num struct {v int }
type Str struct {s string }
type Var struct {name string }
type Bin struct {
	op   string
	l, r Node
}
type Call struct {
	fn   string
	args []Node
}
type Let struct {
	name string
	val  Node
	body Node
}
type List struct {items []Node }

func itoa(n int) string {
	if n == 0 {
		return "0"
	}
	neg := n < 0
	if neg {
		n = -n
	}
	s := ""
	for n > 0 {
		s = string(rune('0'+n%10)) + s
		n /= 10
	}
	if neg {
		s = "-" + s
	}
	return s
}

func (this *Env) Get(name string) (Value, bool) {
	for e := this; e != nil; e = e.parent {
		if v, ok := e.vars[name]; ok {
			return v, true
		}
	}
	return Value{}, false
}

func show(v Value) string {
	switch v.kind {
	case 0:
		return itoa(v.num)
	case 1:
		return "\"" + v.str + "\""
	case 2:
		s := "["
		for i, x := range v.list {
			if i > 0 {
				s += " "
			}
			s += show(*x)
		}
		return s + "]"
	}
	return "<fn>"
}

func (this *Num) Eval(env *Env) Value { return Value{kind: 0, num: this.v} }
func (this *Num) String() string      { return itoa(this.v) }
func (this *Str) Eval(env *Env) Value { return Value{kind: 1, str: this.s} }
func (this *Str) String() string      { return "'" + this.s + "'" }
func (this *Var) Eval(env *Env) Value {
	v, ok := env.Get(this.name)
	if !ok {
		return Value{kind: 1, str: "undefined:" + this.name}
	}
	return v
}
func (this *Var) String() string { return this.name }
func (this *Bin) Eval(env *Env) Value {
	a, b := this.l.Eval(env), this.r.Eval(env)
	if a.kind == 1 || b.kind == 1 {
		if this.op == "+" {
			as, bs := a.str, b.str
			if a.kind == 0 {
				as = itoa(a.num)
			}
			if b.kind == 0 {
				bs = itoa(b.num)
			}
			return Value{kind: 1, str: as + bs}
		}
		return Value{kind: 1, str: "type error"}
	}
	if a.kind == 2 && b.kind == 2 && this.op == "+" {
		out := make([]*Value, 0, len(a.list)+len(b.list))
		out = append(out, a.list...)
		out = append(out, b.list...)
		return Value{kind: 2, list: out}
	}
	switch this.op {
	case "+":
		return Value{num: a.num + b.num}
	case "-":
		return Value{num: a.num - b.num}
	case "*":
		return Value{num: a.num * b.num}
	}
	if b.num == 0 {
		return Value{kind: 1, str: "div by zero"}
	}
	return Value{num: a.num / b.num}
}
func (this *Bin) String() string { return "(" + this.l.String() + this.op + this.r.String() + ")" }
func (this *Call) Eval(env *Env) Value {
	f, ok := builtins[this.fn]
	if !ok {
		return Value{kind: 1, str: "not a function:" + this.fn}
	}
	var args []Value
	for _, a := range this.args {
		args = append(args, a.Eval(env))
	}
	return f(args)
}
func (this *Call) String() string {
	s := this.fn + "("
	for i, a := range this.args {
		if i > 0 {
			s += ","
		}
		s += a.String()
	}
	return s + ")"
}
func (this *Let) Eval(env *Env) Value {
	inner := &Env{vars: map[string]Value{this.name: this.val.Eval(env)}, parent: env}
	return this.body.Eval(inner)
}
func (this *Let) String() string { return "let " + this.name + "=" + this.val.String() + " in " + this.body.String() }
func (this *List) Eval(env *Env) Value {
	var out []*Value
	for _, it := range this.items {
		v := it.Eval(env)
		out = append(out, &v)
	}
	return Value{kind: 2, list: out}
}
func (this *List) String() string { return "[" + itoa(len(this.items)) + "]" }

type Parser struct {
	toks []string
	pos  int
}

func tokenize(src string) []string {
	var toks []string
	i := 0
	for i < len(src) {
		c := src[i]
		if c == ' ' {
			i++
		} else if c >= '0' && c <= '9' {
			j := i
			for j < len(src) && src[j] >= '0' && src[j] <= '9' {
				j++
			}
			toks = append(toks, src[i:j])
			i = j
		} else if (c >= 'a' && c <= 'z') || c == '_' {
			j := i
			for j < len(src) && ((src[j] >= 'a' && src[j] <= 'z') || src[j] == '_') {
				j++
			}
			toks = append(toks, src[i:j])
			i = j
		} else if c == '\'' {
			j := i + 1
			for j < len(src) && src[j] != '\'' {
				j++
			}
			toks = append(toks, src[i:j+1])
			i = j + 1
		} else {
			toks = append(toks, string(rune(c)))
			i++
		}
	}
	return toks
}

func (this *Parser) peek() string {
	if this.pos < len(this.toks) {
		return this.toks[this.pos]
	}
	return ""
}

func (this *Parser) next() string {
	t := this.peek()
	this.pos++
	return t
}

func (this *Parser) expr() Node {
	if this.peek() == "let" {
		this.next()
		name := this.next()
		this.next() // =
		val := this.expr()
		this.next() // in
		body := this.expr()
		return &Let{name: name, val: val, body: body}
	}
	n := this.term()
	for this.peek() == "+" || this.peek() == "-" {
		op := this.next()
		r := this.term()
		n = &Bin{op: op, l: n, r: r}
	}
	return n
}

func (this *Parser) term() Node {
	n := this.atom()
	for this.peek() == "*" || this.peek() == "/" {
		op := this.next()
		r := this.atom()
		n = &Bin{op: op, l: n, r: r}
	}
	return n
}

func (this *Parser) atom() Node {
	t := this.next()
	if t == "(" {
		n := this.expr()
		this.next()
		return n
	}
	if t == "[" {
		l := &List{}
		for this.peek() != "]" && this.peek() != "" {
			l.items = append(l.items, this.expr())
			if this.peek() == "," {
				this.next()
			}
		}
		this.next()
		return l
	}
	if t[0] >= '0' && t[0] <= '9' {
		v := 0
		for i := 0; i < len(t); i++ {
			v = v*10 + int(t[i]-'0')
		}
		return &Num{v: v}
	}
	if t[0] == '\'' {
		return &Str{s: t[1 : len(t)-1]}
	}
	if this.peek() == "(" {
		this.next()
		c := &Call{fn: t}
		for this.peek() != ")" && this.peek() != "" {
			c.args = append(c.args, this.expr())
			if this.peek() == "," {
				this.next()
			}
		}
		this.next()
		return c
	}
	return &Var{name: t}
}

func main() {
	calls := 0
	genv := &Env{vars: make(map[string]Value)}
	builtins = make(map[string]func(args []Value) Value)
	builtins["len"] = func(args []Value) Value {
		calls++
		if len(args) == 0 {
			return Value{}
		}
		if args[0].kind == 2 {
			return Value{num: len(args[0].list)}
		}
		return Value{num: len(args[0].str)}
	}
	builtins["sum"] = func(args []Value) Value {
		calls++
		t := 0
		for _, a := range args {
			if a.kind == 2 {
				for _, x := range a.list {
					t += x.num
				}
			} else {
				t += a.num
			}
		}
		return Value{num: t}
	}
	builtins["rep"] = func(args []Value) Value {
		calls++
		s := ""
		for i := 0; i < args[1].num; i++ {
			s += args[0].str
		}
		return Value{kind: 1, str: s}
	}
	genv.vars["x"] = Value{num: 42}
	progs := []string{
		"1 + 2 * 3",
		"(1 + 2) * 3 - 10 / 2",
		"let a = 5 in let b = a * 2 in a + b + x",
		"'ab' + 'cd' + 7",
		"len(rep('xyz', 4)) + len([1, 2, 3])",
		"sum([1, 2, 3] + [4, 5], 10, let q = 3 in q * q)",
		"[1, 'two', [3, 4], len('five')]",
		"let f = 2 in nosuch(f) + 1",
		"10 / (5 - 5)",
		"let s = rep('ab', 3) in s + s + len(s)",
		"y + 1",
	}
	for round := 0; round < 30; round++ {
		for i, src := range progs {
			p := &Parser{toks: tokenize(src)}
			ast := p.expr()
			v := ast.Eval(genv)
			if round == 29 {
				println(i, ast.String(), "=>", show(v))
			}
		}
	}
	println(calls)
}
