package main

// twin: auto
// 1e6 iterations allocating and discarding acyclic data must complete
type P struct {
	a int
	s []int
	n *P
}

func main() {
	t := 0
	for i := 0; i < 1000000; i++ {
		p := &P{a: i, s: make([]int, 4)}
		p.n = &P{a: i + 1}
		p.s[i&3] = i
		q := *p
		t += q.s[i&3] - p.n.a + 1
		if i%100000 == 0 {
			println(i, t)
		}
	}
	println(t)
	u := 0
	var keep []string
	for i := 0; i < 300000; i++ {
		s := "ab" + string(rune('a'+i%26))
		w := []string{s, s + s}
		m := map[string][]string{s: w}
		keep = m[s]
		u += len(keep[1])
	}
	println(u, keep[0])
}
