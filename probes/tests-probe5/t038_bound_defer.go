package main

// twin: auto
type Logger interface {
	Log(s string) int
	Name() string
}

type L struct {
	name  string
	lines []string
}

func (this *L) Log(s string) int {
	this.lines = append(this.lines, this.name+":"+s)
	return len(this.lines)
}

func (this *L) Name() string { return this.name }

var out []string

func itoa(n int) string {
	if n == 0 {
		return "0"
	}
	s := ""
	for n > 0 {
		s = string(rune('0'+n%10)) + s
		n /= 10
	}
	return s
}

func churn(n int) {
	for i := 0; i < n; i++ {
		s := "junk" + itoa(i)
		_ = []string{s, s + s}
		_ = &L{name: s, lines: []string{s}}
	}
}

func mkLogger(i int) Logger {
	return &L{name: "L" + itoa(i)}
}

func useIfaceBound() string {
	var fs []func(s string) int
	var names []func() string
	for i := 0; i < 3; i++ {
		lg := mkLogger(i)
		fs = append(fs, lg.Log)
		names = append(names, lg.Name)
		churn(10)
	}
	churn(50)
	t := 0
	for r := 0; r < 2; r++ {
		for i, f := range fs {
			t += f("m" + itoa(r*10+i))
		}
	}
	return names[0]() + names[2]() + itoa(t)
}

func deferIface(lg Logger, m map[string]int) (n int) {
	defer lg.Log("deferred-" + itoa(1))
	defer delete(m, "gone")
	defer println("deferred println", lg.Name())
	f := lg.Log
	defer f("via-bound")
	g := func(s string) { out = append(out, s+lg.Name()) }
	defer g("closure-var-")
	lg = mkLogger(99)
	f = nil
	g = nil
	churn(40)
	return lg.Log("direct")
}

func main() {
	println(useIfaceBound())
	a := &L{name: "A"}
	m := map[string]int{"gone": 1, "stay": 2}
	n := deferIface(a, m)
	println(n, len(a.lines), a.lines[0], a.lines[1], len(m), out[0])
	for i := 0; i < 20; i++ {
		deferIface(mkLogger(i), map[string]int{"gone": i})
	}
	println(len(out), out[20])
}
