package main

// twin: auto
type Cfg struct {
	name  string
	paths []string
	env   map[string]string
	next  *Cfg
}

var base Cfg = mkCfg("base", 2)
var derived *Cfg = derive(&base, "derived")
var table map[string]*Cfg = map[string]*Cfg{"b": &base, "d": derived}
var names []string = collect(table)
var counter func() int = mkCounter(10)
var arr [3]Cfg = [3]Cfg{mkCfg("a0", 1), base, *derived}
var lazy []string

func itoa(n int) string {
	if n == 0 {
		return "0"
	}
	s := ""
	for n > 0 {
		s = string(rune('0'+n%10)) + s
		n /= 10
	}
	return s
}

func mkCfg(name string, n int) Cfg {
	c := Cfg{name: name, env: make(map[string]string)}
	for i := 0; i < n; i++ {
		c.paths = append(c.paths, "/"+name+"/"+itoa(i))
		c.env["K"+itoa(i)] = name + itoa(i)
	}
	return c
}

func derive(b *Cfg, name string) *Cfg {
	c := mkCfg(name, 1)
	c.next = b
	c.paths = append(c.paths, b.paths...)
	return &c
}

func collect(t map[string]*Cfg) []string {
	var out []string
	for _, k := range []string{"b", "d", "x"} {
		if c, ok := t[k]; ok {
			out = append(out, c.name)
		}
	}
	return out
}

func mkCounter(start int) func() int {
	c := start
	return func() int {
		c++
		return c
	}
}

func init() {
	lazy = append(lazy, "init1:"+base.name)
	base.paths = append(base.paths, "/added-in-init")
}

func init() {
	lazy = append(lazy, "init2:"+derived.name+itoa(len(base.paths)))
}

func churn(n int) {
	for i := 0; i < n; i++ {
		c := mkCfg("junk"+itoa(i), 3)
		_ = derive(&c, "j")
	}
}

func main() {
	churn(50)
	println(base.name, len(base.paths), base.env["K1"], derived.name, len(derived.paths), derived.next.name, derived.paths[2])
	println(len(table), table["d"].next == &base, names[0], names[1], len(names))
	println(counter(), counter(), arr[0].name, arr[1].paths[1], arr[2].next.name, len(arr[1].paths))
	println(lazy[0], lazy[1])
	base = mkCfg("rebased", 1)
	churn(50)
	println(table["b"].name, derived.next.name, arr[1].name, arr[1].env["K0"])
	table = nil
	derived = nil
	churn(50)
	println(base.name, arr[2].next.name, arr[2].paths[0])
}
