package main

import (
	"bytes"
	"sort"
	"strconv"
	"strings"
)

type byLen []string

func (this *byLen) Len() int { return len(*this) }
func (this *byLen) Less(i, j int) bool {
	return len((*this)[i]) < len((*this)[j]) || (len((*this)[i]) == len((*this)[j]) && (*this)[i] < (*this)[j])
}
func (this *byLen) Swap(i, j int) { (*this)[i], (*this)[j] = (*this)[j], (*this)[i] }

func churn(n int) {
	for i := 0; i < n; i++ {
		s := "junk" + strconv.Itoa(i)
		_ = []string{s, s + s}
		_ = strings.Repeat(s, 3)
	}
}

func main() {
	var sb strings.Builder
	for i := 0; i < 200; i++ {
		sb.WriteString(strconv.Itoa(i))
		sb.WriteByte(',')
		if i%50 == 0 {
			churn(20)
		}
	}
	all := sb.String()
	sb.Reset()
	sb.WriteString("after reset")
	churn(50)
	parts := strings.Split(all, ",")
	println(len(all), len(parts), parts[0], parts[199], sb.String())
	words := strings.Fields("  the quick  brown fox jumps over the lazy dog  ")
	freq := make(map[string]int)
	for _, w := range words {
		freq[strings.ToUpper(w)]++
	}
	keys := make([]string, 0)
	for k := range freq {
		keys = append(keys, k)
	}
	sort.Strings(keys)
	churn(50)
	println(strings.Join(keys, "|"), freq["THE"], len(freq))
	bl := byLen(words)
	sort.Sort(&bl)
	println(strings.Join(words, " "))
	r := strings.Replace(all[:30], ",", "; ", -1)
	println(r, strings.Index(all, "100"), strings.HasPrefix(all, "0,1"), strings.TrimSpace("  x y  "), strings.Contains(r, "; 7;"))
	var buf bytes.Buffer
	for i := 0; i < 100; i++ {
		buf.WriteString("line ")
		buf.WriteString(strconv.Itoa(i))
		buf.WriteByte('\n')
	}
	b := buf.Bytes()
	churn(50)
	lines := bytes.Split(b, []byte("\n"))
	println(len(b), len(lines), string(lines[42]), buf.Len())
	n, err := strconv.Atoi("12345")
	_, err2 := strconv.Atoi("12x")
	println(n, err == nil, err2 != nil, strconv.Quote("a\"b\n"), strconv.FormatInt(-255, 16))
	ints := []int{5, 2, 9, 1, 5, 6, -3}
	sort.Ints(ints)
	println(ints[0], ints[1], ints[6], sort.SearchInts(ints, 6))
}
