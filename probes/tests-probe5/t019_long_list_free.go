package main

// twin: auto
type Node struct {
	val  int
	next *Node
}

func build(n int) *Node {
	var head *Node
	for i := 0; i < n; i++ {
		head = &Node{val: i, next: head}
	}
	return head
}

func sum(p *Node) int {
	t := 0
	for p != nil {
		t += p.val & 1
		p = p.next
	}
	return t
}

func main() {
	for _, n := range []int{1000, 10000, 100000, 1000000} {
		l := build(n)
		println(n, sum(l))
		l = nil
		l = build(10)
		println("dropped", n, sum(l))
	}
}
