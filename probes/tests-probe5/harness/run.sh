#!/bin/bash
# usage: run.sh name...   runs name.wa with normal and instrumented runtime; and Go twin if name.go exists
cd /tmp/probe5/out/tests
export GOFLAGS=-mod=mod GOPROXY=off GOSUMDB=off GOTOOLCHAIN=local GOWORK=off
for n in "$@"; do
  if grep -q "runtime.probe" $n.wa; then
    timeout ${TMO:-600} /tmp/probe5/probe_instr $n.wa 2>&1 | head -c 20000 > $n.wa.instr.out; rc=${PIPESTATUS[0]}
    [ $rc -ne 0 ] && echo "EXIT: $rc" >> $n.wa.instr.out
    echo "$n: instr-only, $(wc -l < $n.wa.instr.out) lines"
    continue
  fi
  timeout ${TMO:-600} /tmp/probe5/probe $n.wa 2>&1 | head -c 20000 > $n.wa.out; rc=${PIPESTATUS[0]}
  [ $rc -ne 0 ] && echo "EXIT: $rc" >> $n.wa.out
  timeout ${TMO:-600} /tmp/probe5/probe_instr $n.wa 2>&1 | head -c 20000 > $n.wa.instr.out; rc=${PIPESTATUS[0]}
  [ $rc -ne 0 ] && echo "EXIT: $rc" >> $n.wa.instr.out
  msg=""
  if cmp -s $n.wa.out $n.wa.instr.out; then msg="poison=SAME"; else msg="poison=DIFF"; fi
  if grep -q '^// twin: auto' $n.wa; then python3 /tmp/probe5/wa2go.py $n.wa > $n.go; fi
  if [ -f $n.go ]; then
    mkdir -p /tmp/probe5/gotwin/$n && cp $n.go /tmp/probe5/gotwin/$n/main.go
    (cd /tmp/probe5/gotwin/$n && { [ -f go.mod ] || go mod init twin/$n >/dev/null 2>&1; } ; go run . > /tmp/probe5/out/tests/$n.go.out 2>&1)
    if cmp -s $n.wa.out $n.go.out; then msg="$msg go=SAME"; else msg="$msg go=DIFF"; fi
  fi
  echo "$n: $msg ($(wc -l < $n.wa.out) lines)"
done
