#!/usr/bin/env python3
# Random program generator: emits the same program in Wa and in Go.
import random, sys

PRELUDE_WA = '''
type Inner :struct {
	tag: string
	arr: [2]string
}

type N :struct {
	name: string
	kids: []*N
	next: *N
	attr: map[string]string
	in:   Inner
}

global gs: string
global gv: []string
global gp: *N
global gt: N

func itoa(n: int) => string {
	if n == 0 {
		return "0"
	}
	s := ""
	neg := n < 0
	if neg {
		n = -n
	}
	for n > 0 {
		s = string(rune('0'+n%10)) + s
		n /= 10
	}
	if neg {
		s = "-" + s
	}
	return s
}

func clip(s: string) => string {
	if len(s) > 24 {
		return s[len(s)-12:] + s[:6]
	}
	return s
}

func nm(p: *N) => string {
	if p == nil {
		return "<nil>"
	}
	return p.name
}

func first(v: []string) => string {
	if len(v) == 0 {
		return "<empty>"
	}
	return v[0]
}

func last(v: []string) => string {
	if len(v) == 0 {
		return "<empty>"
	}
	return v[len(v)-1]
}

func mk(name: string) => *N {
	n := &N{name: name}
	n.in.tag = "t" + name
	n.in.arr[1] = name + "1"
	return n
}

func mkv(name: string) => N {
	return N{name: name, in: Inner{tag: "v" + name, arr: [2]string{name, name + name}}, kids: []*N{mk(name + "k")}}
}

func two(a, b: string) => (string, string) {
	return b + "'", a
}

func pick(v: []string, i: int) => string {
	if len(v) == 0 {
		return "<e>"
	}
	if i < 0 {
		i = -i
	}
	return v[i%len(v)]
}

func sub(v: []string, a, b: int) => []string {
	if a < 0 {
		a = -a
	}
	if b < 0 {
		b = -b
	}
	if len(v) == 0 {
		return v
	}
	a %= len(v)
	b %= len(v) + 1
	if a > b {
		a, b = b, a
	}
	return v[a:b]
}

func descE(e: interface{}) => string {
	switch x := e.(type) {
	case nil:
		return "nil"
	case string:
		return "s:" + x
	case []string:
		return "v:" + itoa(len(x)) + first(x)
	case *N:
		return "p:" + nm(x)
	case N:
		return "n:" + x.name + x.in.tag
	case Inner:
		return "i:" + x.tag + x.arr[1]
	}
	return "?"
}

func descN(p: *N, depth: int) => string {
	if p == nil {
		return "-"
	}
	if depth > 6 {
		return "..."
	}
	s := p.name + "{" + p.in.tag + "," + p.in.arr[0] + "," + p.in.arr[1] + "," + itoa(len(p.kids)) + "," + itoa(len(p.attr))
	if len(p.kids) > 0 {
		s += ",k0=" + nm(p.kids[0]) + ",kl=" + nm(p.kids[len(p.kids)-1])
	}
	if p.attr != nil {
		s += ",a=" + p.attr["a"] + p.attr["b"]
	}
	return s + "}>" + descN(p.next, depth+1)
}

func descV(v: []string) => string {
	s := itoa(len(v)) + "["
	for i, x := range v {
		if i > 5 {
			s += "..."
			break
		}
		s += x + ","
	}
	return s + "]"
}

func descM(m: map[string]string) => string {
	if m == nil {
		return "nilmap"
	}
	return itoa(len(m)) + ":" + m["a"] + "|" + m["b"] + "|" + m["c"] + "|" + m["k1"] + "|" + m["k2"]
}

func hash(h: u32, s: string) => u32 {
	for i := 0; i < len(s); i++ {
		h = (h ^ u32(s[i])) * 16777619
	}
	return h
}

func app(v: []string, s: string) => []string {
	r := make([]string, len(v)+1)
	copy(r, v)
	r[len(v)] = s
	return r
}

func appk(v: []*N, x: *N) => []*N {
	r := make([]*N, len(v)+1)
	copy(r, v)
	r[len(v)] = x
	return r
}

func churn(n: int) {
	for i := 0; i < n; i++ {
		s := "junk" + itoa(i)
		j := mk(s)
		j.kids = appk(j.kids, mk(s+"x"))
		j.attr = map[string]string{"a": s}
		v := []string{s, s + s}
		v = app(v, j.name)
	}
}
'''

def to_go(src):
    import re, subprocess
    sys.path.insert(0, '/tmp/probe5')
    import wa2go
    return wa2go.conv(src)

class G:
    def __init__(self, seed):
        self.r = random.Random(seed)
        self.lit = 0
        self.S = ['s0', 's1', 's2', 's3', 'gs']
        self.V = ['v0', 'v1', 'v2', 'gv']
        self.M = ['m0', 'm1']
        self.P = ['p0', 'p1', 'p2', 'gp']
        self.T = ['t0', 't1', 'gt']
        self.E = ['e0', 'e1']
        self.F = ['f0', 'f1']
        self.loopdepth = 0
        self.loopvars = []

    def c(self, xs):
        return self.r.choice(xs)

    def newlit(self):
        self.lit += 1
        return '"L%d"' % self.lit

    def intexpr(self):
        k = self.r.randint(0, 5)
        if k == 0 and self.loopvars:
            return self.c(self.loopvars)
        if k == 1:
            return 'len(%s)' % self.c(self.S + self.V)
        if k == 2 and self.loopvars:
            return '%s*%d+%d' % (self.c(self.loopvars), self.r.randint(1, 5), self.r.randint(0, 9))
        return str(self.r.randint(0, 9))

    def sexpr(self, depth=0):
        k = self.r.randint(0, 17)
        if depth > 2:
            k = self.r.randint(0, 3)
        if k == 0:
            return self.newlit()
        if k <= 2:
            return self.c(self.S)
        if k == 3:
            return 'itoa(%s)' % self.intexpr()
        if k == 4:
            return 'clip(%s + %s)' % (self.sexpr(depth + 1), self.sexpr(depth + 1))
        if k == 5:
            return 'nm(%s)' % self.pexpr(depth + 1)
        if k == 6:
            return 'first(%s)' % self.vexpr(depth + 1)
        if k == 7:
            return 'last(%s)' % self.c(self.V)
        if k == 8:
            return '%s[%s]' % (self.c(self.M), self.kexpr())
        if k == 9:
            return '%s.in.tag' % self.c(self.T)
        if k == 10:
            return '%s.in.arr[%d]' % (self.c(self.T), self.r.randint(0, 1))
        if k == 11:
            return 'pick(%s, %s)' % (self.vexpr(depth + 1), self.intexpr())
        if k == 12:
            return 'descE(%s)' % self.c(self.E)
        if k == 13:
            return '%s.name' % self.c(self.T)
        if k == 14:
            return 'mkv(%s).in.arr[1]' % self.sexpr(depth + 1)
        if k == 15:
            return 'mk(%s).in.tag' % self.sexpr(depth + 1)
        if k == 16:
            return 'clip(descN(%s, 4))' % self.c(self.P)
        return 'clip(descV(%s))' % self.c(self.V)

    def kexpr(self):
        return self.c(['"a"', '"b"', '"c"', '"k1"', '"k2"', '"k"+itoa(%s%%3)' % self.intexpr()])

    def vexpr(self, depth=0):
        k = self.r.randint(0, 6)
        if depth > 2:
            k = 0
        if k <= 2:
            return self.c(self.V)
        if k == 3:
            return 'sub(%s, %s, %s)' % (self.c(self.V), self.intexpr(), self.intexpr())
        if k == 4:
            return '[]string{%s, %s}' % (self.sexpr(depth + 1), self.sexpr(depth + 1))
        if k == 5:
            return 'app(%s, %s)' % (self.c(self.V), self.sexpr(depth + 1))
        return 'app(%s, %s)' % (self.c(self.V), self.sexpr(depth + 1))

    def pexpr(self, depth=0):
        k = self.r.randint(0, 5)
        if depth > 2:
            k = 0
        if k <= 2:
            return self.c(self.P)
        if k == 3:
            return 'mk(%s)' % self.sexpr(depth + 1)
        if k == 4:
            return '&N{name: %s, next: %s}' % (self.sexpr(depth + 1), self.c(['nil', 'mk(%s)' % self.newlit()]))
        return '&%s' % self.c(['t0', 't1'])   # pointer to local struct (escapes)

    def stmt(self, ind, depth):
        r = self.r
        t = '\t' * ind
        k = r.randint(0, 40)
        if k <= 3:
            return ['%s%s = %s' % (t, self.c(self.S), self.sexpr())]
        if k == 4:
            return ['%s%s += %s' % (t, self.c(self.S), self.sexpr()), '%s%s = clip(%s)' % (t, self.S[0], self.S[0])]
        if k <= 6:
            return ['%s%s = %s' % (t, self.c(self.V), self.vexpr())]
        if k == 7:
            v = self.c(self.V)
            return ['%sif len(%s) > 0 {' % (t, v), '%s\t%s[(%s)%%len(%s)] = %s' % (t, v, self.intexpr(), v, self.sexpr()), '%s}' % t]
        if k == 8:
            v = self.c(self.V)
            return ['%sif len(%s) > 12 {' % (t, v), '%s\t%s = %s[len(%s)-5:]' % (t, v, v, v), '%s}' % t]
        if k == 9:
            return ['%s%s[%s] = %s' % (t, self.c(self.M), self.kexpr(), self.sexpr())]
        if k == 10:
            return ['%sdelete(%s, %s)' % (t, self.c(self.M), self.kexpr())]
        if k == 11:
            m = self.c(self.M)
            return ['%s%s = map[string]string{%s: %s}' % (t, m, self.kexpr(), self.sexpr())]
        if k <= 13:
            return ['%s%s = %s' % (t, self.c(self.P), self.pexpr())]
        if k == 14:
            p = self.c(self.P)
            return ['%sif %s != nil {' % (t, p), '%s\t%s.next = mk(%s)' % (t, p, self.sexpr()), '%s}' % t]
        if k == 15:
            p = self.c(self.P)
            return ['%sif %s != nil && %s.next != nil {' % (t, p, p), '%s\t%s = %s.next' % (t, p, p), '%s}' % t]
        if k == 16:
            p = self.c(self.P)
            f = self.c(['name', 'in.tag', 'in.arr[0]', 'in.arr[1]'])
            return ['%sif %s != nil {' % (t, p), '%s\t%s.%s = %s' % (t, p, f, self.sexpr()), '%s}' % t]
        if k == 17:
            p = self.c(self.P)
            return ['%sif %s != nil && len(%s.kids) < 6 {' % (t, p, p), '%s\t%s.kids = appk(%s.kids, %s)' % (t, p, p, self.c(['mk(%s)' % self.sexpr(), self.c(self.P)])), '%s}' % t]
        if k == 18:
            p = self.c(self.P)
            return ['%sif %s != nil {' % (t, p), '%s\tif %s.attr == nil {' % (t, p), '%s\t\t%s.attr = make(map[string]string)' % (t, p), '%s\t}' % t,
                    '%s\t%s.attr[%s] = %s' % (t, p, self.c(['"a"', '"b"']), self.sexpr()), '%s}' % t]
        if k == 19:
            p = self.c(self.P)
            return ['%sif %s != nil && len(%s.kids) > 0 {' % (t, p, p), '%s\t%s = %s.kids[(%s)%%len(%s.kids)]' % (t, self.c(self.P), p, self.intexpr(), p), '%s}' % t]
        if k == 20:
            p = self.c(self.P)
            return ['%sif %s != nil {' % (t, p), '%s\t%s = *%s' % (t, self.c(self.T), p), '%s}' % t]
        if k == 21:
            return ['%s%s = %s' % (t, self.c(self.T), self.c(self.T + ['mkv(%s)' % self.sexpr()]))]
        if k == 22:
            p = self.c(self.P)
            return ['%sif %s != nil {' % (t, p), '%s\t*%s = %s' % (t, p, self.c(self.T)), '%s\t%s.next = nil' % (t, p), '%s}' % t]
        if k == 23:
            return ['%s%s.%s = %s' % (t, self.c(self.T), self.c(['name', 'in.tag', 'in.arr[0]', 'in.arr[1]']), self.sexpr())]
        if k == 24:
            p = self.c(self.P)
            return ['%sif %s != nil {' % (t, p), '%s\t%s.in = %s.in' % (t, self.c(self.T), p), '%s}' % t]
        if k == 25:
            if self.r.randint(0, 5) == 0:
                pp = self.c(self.P)
                return ['%sif %s != nil {' % (t, pp), '%s\t%s = %s' % (t, self.c(self.E), pp), '%s}' % t]
            return ['%s%s = %s' % (t, self.c(self.E), self.c([self.c(self.S), self.c(self.V), self.c(self.T), 'nil', self.c(self.T) + '.in', self.sexpr()]))]
        if k == 26:
            e = self.c(self.E)
            return ['%sif x, ok := %s.(*N); ok && x != nil {' % (t, e), '%s\tx.name = clip(x.name + %s)' % (t, self.sexpr()), '%s\t%s = x' % (t, self.c(self.P)), '%s}' % t]
        if k == 27:
            e = self.c(self.E)
            return ['%sif x, ok := %s.([]string); ok {' % (t, e), '%s\t%s = x' % (t, self.c(self.V)), '%s}' % t]
        if k == 28:
            f = self.c(self.F)
            caps = [self.c(self.S), 'nm(%s)' % self.c(self.P), 'first(%s)' % self.c(self.V), self.c(self.T) + '.in.tag']
            self.r.shuffle(caps)
            body = ' + '.join(caps[:self.r.randint(1, 3)])
            extra = ''
            if self.r.randint(0, 2) == 0:
                extra = '%s = clip(%s + "!"); ' % (self.c(self.S[:4]), self.c(self.S[:4]))
            return ['%s%s = func() => string { %sreturn %s }' % (t, f, extra, body)]
        if k == 29:
            f = self.c(self.F)
            return ['%sif %s != nil {' % (t, f), '%s\t%s = %s()' % (t, self.c(self.S), f), '%s}' % t]
        if k == 30:
            a, b = self.c(self.S), self.c(self.S)
            return ['%s%s, %s = two(%s, %s)' % (t, a, b, self.sexpr(), self.sexpr()), '%s%s = clip(%s)' % (t, a, a), '%s%s = clip(%s)' % (t, b, b)] if a != b else ['%schurn(3)' % t]
        if k == 31:
            a, b = self.c(self.P), self.c(self.P)
            return ['%s%s, %s = %s, %s' % (t, a, b, b, a)] if a != b else ['%schurn(2)' % t]
        if k == 32:
            return ['%schurn(%d)' % (t, r.randint(2, 12))]
        if k == 33 and depth < 2:
            out = ['%sif %s %s %s {' % (t, self.c(['len(%s)' % self.c(self.S + self.V), self.intexpr()]), self.c(['<', '>', '==', '!=']), self.intexpr())]
            for _ in range(r.randint(1, 4)):
                out += self.stmt(ind + 1, depth + 1)
            if r.randint(0, 1):
                out.append('%s} else {' % t)
                for _ in range(r.randint(1, 3)):
                    out += self.stmt(ind + 1, depth + 1)
            out.append('%s}' % t)
            return out
        if k == 34 and depth < 2:
            lv = 'i%d' % len(self.loopvars)
            out = ['%sfor %s := 0; %s < %d; %s++ {' % (t, lv, lv, r.randint(2, 5), lv)]
            self.loopvars.append(lv)
            for _ in range(r.randint(1, 5)):
                out += self.stmt(ind + 1, depth + 1)
            if r.randint(0, 3) == 0:
                out.append('%s\tif %s == %d {' % (t, lv, r.randint(0, 3)))
                out.append('%s\t\t%s' % (t, self.c(['break', 'continue'])))
                out.append('%s\t}' % t)
                for _ in range(r.randint(0, 2)):
                    out += self.stmt(ind + 1, depth + 1)
            self.loopvars.pop()
            out.append('%s}' % t)
            return out
        if k == 35 and depth < 2:
            v = self.c(self.V)
            lv = 'x%d' % depth
            out = ['%sfor _, %s := range %s {' % (t, lv, self.c([v, 'sub(%s, 0, 3)' % v]))]
            out.append('%s\t%s = clip(%s + %s)' % (t, self.c(self.S), self.c(self.S), lv))
            for _ in range(r.randint(0, 3)):
                out += self.stmt(ind + 1, depth + 1)
            out.append('%s}' % t)
            return out
        if k == 36:
            p = self.c(self.P)
            return ['%sif %s != nil {' % (t, p), '%s\tq := &%s.in' % (t, p), '%s\t%s = %s' % (t, p, self.pexpr()), '%s\tchurn(3)' % t,
                    '%s\tq.tag = clip(q.tag + %s)' % (t, self.sexpr()), '%s\t%s = q.tag + q.arr[1]' % (t, self.c(self.S)), '%s}' % t]
        if k == 37:
            p = self.c(self.P)
            return ['%sif %s != nil {' % (t, p), '%s\tr := &%s.in.arr[%d]' % (t, p, r.randint(0, 1)), '%s\t%s = nil' % (t, p), '%s\tchurn(3)' % t,
                    '%s\t*r = clip(*r + %s)' % (t, self.sexpr()), '%s\t%s = *r' % (t, self.c(self.S)), '%s}' % t]
        if k == 38:
            v = self.c(self.V)
            return ['%sif len(%s) > 2 {' % (t, v), '%s\tw := %s[1:2]' % (t, v), '%s\t%s = %s' % (t, v, self.vexpr()), '%s\tchurn(3)' % t,
                    '%s\t%s = app(w, %s)' % (t, self.c(self.V), self.sexpr()), '%s}' % t]
        if k == 39:
            return ['%sdefer func(a: string, b: *N) { gs = clip(gs + a + nm(b)) }(%s, %s)' % (t, self.sexpr(), self.c(self.P))] if depth == 0 else ['%schurn(2)' % t]
        return ['%scheck("mid")' % t]

    def func(self, name, n):
        out = ['func %s(s0, s1: string, v0: []string, p0: *N, t0: N) => (s2: string, v1: []string, p1: *N) {' % name]
        out += ['\tvar s3: string', '\tvar v2: []string', '\tvar p2: *N', '\tvar t1: N', '\tvar e0, e1: interface{}', '\tvar f0, f1: func() => string',
                '\tm0 := make(map[string]string)', '\tvar m1: map[string]string = map[string]string{"a": s1}',
                '\tcheck := func(tag: string) {',
                '\t\th := u32(2166136261)',
                '\t\tfor _, s := range []string{tag, s0, s1, s2, s3, gs, descV(v0), descV(v1), descV(v2), descV(gv), descM(m0), descM(m1), descN(p0, 0), descN(p1, 0), descN(p2, 0), descN(gp, 0), descN(&t0, 0), descN(&t1, 0), descN(&gt, 0), descE(e0), descE(e1)} {',
                '\t\t\th = hash(h, s)',
                '\t\t}',
                '\t\tfv := ""',
                '\t\tif f0 != nil {',
                '\t\t\tfv += f0()',
                '\t\t}',
                '\t\tif f1 != nil {',
                '\t\t\tfv += f1()',
                '\t\t}',
                '\t\tprintln("%s", tag, h, clip(fv), clip(s0), clip(s2), len(v0), len(v1), nm(p0), nm(p1), t0.name, t1.in.tag)' % name,
                '\t}']
        for _ in range(n):
            out += self.stmt(1, 0)
        out += ['\tcheck("end")', '\treturn', '}']
        return out

def gen(seed):
    g = G(seed)
    body = []
    nf = 3
    for i in range(nf):
        body += g.func('fn%d' % i, g.r.randint(25, 60))
        body.append('')
    body.append('func main {')
    body.append('\ta, b, c := fn0("x", "y", nil, nil, mkv("z"))')
    body.append('\tchurn(20)')
    body.append('\tprintln(clip(a), descV(b), clip(descN(c, 0)))')
    body.append('\td, e, f := fn1(a, clip(a+"2"), b, c, gt)')
    body.append('\tchurn(20)')
    body.append('\tprintln(clip(d), descV(e), clip(descN(f, 0)))')
    body.append('\tfor r := 0; r < 3; r++ {')
    body.append('\t\td, e, f = fn2(d, a, e, f, mkv(itoa(r)))')
    body.append('\t\tchurn(10)')
    body.append('\t\tprintln(clip(d), descV(e), clip(descN(f, 0)), clip(gs), descV(gv), clip(descN(gp, 0)))')
    body.append('\t}')
    body.append('}')
    return PRELUDE_WA + '\n' + '\n'.join(body) + '\n'

if __name__ == '__main__':
    seed = int(sys.argv[1])
    outdir = sys.argv[2]
    wa = gen(seed)
    open('%s/f%04d.wa' % (outdir, seed), 'w').write('// generated by gen.py seed %d\n' % seed + wa)
    open('%s/f%04d.go' % (outdir, seed), 'w').write(to_go(wa))
