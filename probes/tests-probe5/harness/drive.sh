#!/bin/bash
# usage: drive.sh from to
export GOFLAGS=-mod=mod GOPROXY=off GOSUMDB=off GOTOOLCHAIN=local GOWORK=off
D=/tmp/probe5/out/tests/fuzz
mkdir -p $D /tmp/probe5/gotwin/fz$1
cd /tmp/probe5/gotwin/fz$1 && { [ -f go.mod ] || go mod init twin/fz$1 >/dev/null 2>&1; }
for s in $(seq $1 $2); do
  n=$(printf "f%04d" $s)
  python3 /tmp/probe5/fuzz/gen.py $s $D
  timeout 300 /tmp/probe5/probe $D/$n.wa 2>&1 | head -c 30000 > $D/$n.wa.out
  timeout 300 /tmp/probe5/probe_instr $D/$n.wa 2>&1 | head -c 30000 > $D/$n.wa.instr.out
  cp $D/$n.go /tmp/probe5/gotwin/fz$1/main.go
  (cd /tmp/probe5/gotwin/fz$1 && timeout 300 go run . 2>&1 | head -c 30000 > $D/$n.go.out)
  r=""
  cmp -s $D/$n.wa.out $D/$n.wa.instr.out || r="$r POISON-DIFF"
  cmp -s $D/$n.wa.out $D/$n.go.out || r="$r GO-DIFF"
  if [ -z "$r" ]; then echo "$n ok"; rm -f $D/$n.wa $D/$n.go $D/$n.*.out; else echo "$n$r"; fi
done
