package main

import (
	"fmt"
	"os"
	"runtime/debug"

	"wa-lang.org/wa/api"
)

func runOne(path string) {
	code, err := os.ReadFile(path)
	if err != nil {
		fmt.Println("READ ERROR:", err)
		return
	}
	defer func() {
		if r := recover(); r != nil {
			fmt.Printf("PANIC: %v\n", r)
			if os.Getenv("PROBE_STACK") != "" {
				os.Stdout.Write(debug.Stack())
			}
		}
	}()
	out, err := api.RunCode(api.DefaultConfig(), "x.wa", string(code))
	os.Stdout.Write(out)
	if err != nil {
		fmt.Printf("\nERROR: %v\n", err)
	}
}

func main() {
	for _, p := range os.Args[1:] {
		runOne(p)
	}
}
