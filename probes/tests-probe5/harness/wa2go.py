#!/usr/bin/env python3
# Convert a disciplined subset of Wa to Go (for twin generation).
import re, sys

def conv_sig(s):
    # s: text of a parenthesised group in a func signature
    return re.sub(r'(\b\w+): ', r'\1 ', s)

def match_paren(t, i):
    d = 0
    while i < len(t):
        if t[i] == '(':
            d += 1
        elif t[i] == ')':
            d -= 1
            if d == 0:
                return i
        i += 1
    return -1

def conv(src):
    src = re.sub(r'^func main \{', 'func main() {', src, flags=re.M)
    src = re.sub(r'^func (\w+)\.(\w+)\(', r'func (this *\1) \2(', src, flags=re.M)
    src = re.sub(r'^func (\w+)\.(\w+) \{', r'func (this *\1) \2() {', src, flags=re.M)
    # type decls
    out = []
    intype = False
    for line in src.split('\n'):
        m = re.match(r'^(\s*)type (\w+) :(struct|interface) \{(.*)$', line)
        if m:
            rest = m.group(4)
            ind = m.group(1)
            if rest.strip().endswith('}'):
                body = rest.strip()[:-1]
                body = re.sub(r'(\b[\w, ]+?): ', r'\1 ', body)
                line = ind + 'type %s %s {%s}' % (m.group(2), m.group(3), body)
            else:
                intype = True
                line = ind + 'type %s %s {' % (m.group(2), m.group(3))
            out.append(line); continue
        m = re.match(r'^(\s*)type (\w+) :(.*)$', line)
        if m:
            out.append(m.group(1) + 'type %s %s' % (m.group(2), m.group(3))); continue
        if intype:
            if line.strip() == '}':
                intype = False
            else:
                if '(' in line:
                    line = re.sub(r'(\b\w+): ', r'\1 ', line)
                else:
                    line = re.sub(r'^(\s*[\w, ]+?): ', r'\1 ', line)
            out.append(line); continue
        line = re.sub(r'^(\s*)(?:var|global) ([\w, ]+): ', r'\1var \2 ', line)
        line = re.sub(r'^(\s*)global ', r'\1var ', line)
        out.append(line)
    t = '\n'.join(out)
    # func signatures
    res = []
    i = 0
    for m in re.finditer(r'\bfunc\b', t):
        pass
    pos = 0
    while True:
        m = re.compile(r'\bfunc\b').search(t, pos)
        if not m:
            res.append(t[pos:]); break
        res.append(t[pos:m.end()])
        j = m.end()
        # optional receiver group "(this *T)" and name
        k = j
        # skip spaces
        while True:
            while k < len(t) and t[k] == ' ':
                k += 1
            if k < len(t) and t[k] == '(':
                e = match_paren(t, k)
                res.append(t[j:k]); res.append(conv_sig(t[k:e+1]))
                j = k = e + 1
                # after a group: maybe name+group (receiver case), or "=> (" results
                m2 = re.match(r' (\w+)\(', t[k:])
                if m2 and t[m.end():m.end()+6].startswith(' (this'):
                    continue_name = True
                    res.append(' ' + m2.group(1)); j = k = k + 1 + len(m2.group(1))
                    continue
                m3 = re.match(r' => \(', t[k:])
                if m3:
                    res.append(' '); j = k = k + 4
                    continue
                break
            else:
                m2 = re.match(r'(\w+)\(', t[k:])
                if m2:
                    res.append(t[j:k] + m2.group(1)); j = k = k + len(m2.group(1))
                    continue
                break
        pos = j
    t = ''.join(res)
    t = t.replace(' => ', ' ')
    for a, b in [('i8','int8'),('i16','int16'),('i32','int32'),('i64','int64'),('u8','uint8'),('u16','uint16'),('u32','uint32'),('u64','uint64'),('f32','float32'),('f64','float64')]:
        t = re.sub(r'\b%s\b' % a, b, t)
    return 'package main\n\n' + t

if __name__ == '__main__':
    sys.stdout.write(conv(open(sys.argv[1]).read()))
