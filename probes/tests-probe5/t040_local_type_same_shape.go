package main

// twin: auto
func f() int {
	type K struct {
		a int
		b int
	}
	ks := []K{{1, 2}, {3, 4}}
	m := make(map[K]int)
	for i, k := range ks {
		m[k] = i
	}
	println(len(m), m[K{3, 4}], ks[1].a+ks[1].b)
	return len(m)
}

func g() int {
	type K struct {
		a string
		b []string
	}
	ks := []K{{"x", []string{"p"}}, {"yy", []string{"q", "r"}}}
	m := make(map[string]K)
	for _, k := range ks {
		m[k.a] = k
	}
	k := m["yy"]
	println(len(m), k.a, len(k.b), k.b[1])
	return len(k.a)
}

func main() {
	println(f(), g())
	println(g(), f())
}
