package main

// twin: auto
func churn(n int) {
	for i := 0; i < n; i++ {
		s := "junk" + string(rune('a'+i%26))
		_ = []string{s, s + s}
	}
}

func main() {
	m := make(map[string]int)
	buf := []byte("alpha")
	m[string(buf)] = 1
	buf[0] = 'A'
	m[string(buf)] = 2
	copy(buf, "omega")
	churn(50)
	println(len(m), m["alpha"], m["Alpha"], m["omega"])

	big := "header:" + string(buf) + ":0123456789:trailer"
	k1 := big[7:12]
	k2 := big[13:23]
	m[k1] = 3
	m[k2] = 4
	big = ""
	churn(100)
	println(len(m), m["omega"], m["0123456789"])
	for k, v := range m {
		if v == 4 && k != "0123456789" {
			println("bad key", k)
		}
	}

	vals := make(map[string][]byte)
	vals["x"] = buf
	buf[1] = 'M'
	vals["y"] = append([]byte(nil), buf...)
	buf[2] = 'E'
	churn(50)
	println(string(vals["x"]), string(vals["y"]), string(buf))

	type P struct {
		a string
		b int
	}
	ps := make(map[P]string)
	p := P{a: "k" + string(buf[:2]), b: 1}
	ps[p] = "first"
	p.a = "changed"
	ps[p] = "second"
	churn(50)
	println(len(ps), ps[P{"koM", 1}], ps[P{"changed", 1}])
}
