package main

// twin: auto
// long-lived structures with checksums, verified repeatedly while garbage is produced and recycled
type Rec struct {
	id    int
	name  string
	tags  []string
	attrs map[string]int
	next  *Rec
	blob  []uint8
}

var seed uint32 = 5

func rnd() int {
	seed = seed*1664525 + 1013904223
	return int((seed >> 8) & 0x7fffff)
}

func itoa(n int) string {
	if n == 0 {
		return "0"
	}
	s := ""
	for n > 0 {
		s = string(rune('0'+n%10)) + s
		n /= 10
	}
	return s
}

func hashStr(h uint32, s string) uint32 {
	for i := 0; i < len(s); i++ {
		h = (h ^ uint32(s[i])) * 16777619
	}
	return h
}

func mkRec(i int) *Rec {
	r := &Rec{id: i, name: "rec-" + itoa(i*7919)}
	n := 1 + i%5
	for j := 0; j < n; j++ {
		r.tags = append(r.tags, "t"+itoa(i)+"_"+itoa(j))
	}
	r.attrs = make(map[string]int)
	for j := 0; j < n+2; j++ {
		r.attrs["a"+itoa(j)] = i*31 + j
	}
	r.blob = make([]uint8, 10+i%50)
	for j := range r.blob {
		r.blob[j] = uint8(i + j*3)
	}
	return r
}

func sumRec(r *Rec) uint32 {
	h := uint32(2166136261)
	h = hashStr(h, itoa(r.id))
	h = hashStr(h, r.name)
	for _, t := range r.tags {
		h = hashStr(h, t)
	}
	for j := 0; j < len(r.attrs); j++ {
		h = h*31 + uint32(r.attrs["a"+itoa(j)])
	}
	for _, b := range r.blob {
		h = h*131 + uint32(b)
	}
	return h
}

func garbage(n int) int {
	t := 0
	for i := 0; i < n; i++ {
		r := mkRec(rnd() % 1000)
		r.next = mkRec(i)
		s := r.name + r.next.name
		b := []byte(s)
		b[0] = 'X'
		m := make(map[int][]string)
		m[i] = r.tags
		m[i+1] = append(m[i], string(b))
		t += len(m[i+1]) + len(r.blob)
	}
	return t
}

func main() {
	const N = 300
	recs := make([]*Rec, N)
	sums := make([]uint32, N)
	byName := make(map[string]*Rec)
	for i := 0; i < N; i++ {
		recs[i] = mkRec(i)
		sums[i] = sumRec(recs[i])
		byName[recs[i].name] = recs[i]
		if i > 0 {
			recs[i].next = recs[i-1]
		}
	}
	bad := 0
	total := 0
	for round := 0; round < 40; round++ {
		total += garbage(200)
		// replace a few long-lived records (old ones become garbage) and re-verify everything
		for k := 0; k < 10; k++ {
			i := rnd() % N
			delete(byName, recs[i].name)
			nr := mkRec(i + 1000*(round+1))
			nr.next = recs[i].next
			recs[i] = nr
			if i+1 < N {
				recs[i+1].next = nr
			}
			sums[i] = sumRec(nr)
			byName[nr.name] = nr
		}
		for i := 0; i < N; i++ {
			if sumRec(recs[i]) != sums[i] {
				bad++
			}
			if byName[recs[i].name] != recs[i] {
				bad++
			}
			if i > 0 && recs[i].next != recs[i-1] {
				bad++
			}
		}
		// walk the chain from the end
		cnt := 0
		for p := recs[N-1]; p != nil; p = p.next {
			cnt++
		}
		if cnt != N {
			bad++
		}
	}
	h := uint32(0)
	for i := 0; i < N; i++ {
		h = h*7 + sums[i]
	}
	println("bad", bad, "total", total, "len", len(byName), "h", h)
}
