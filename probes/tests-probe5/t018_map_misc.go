package main

// twin: auto
type M map[string]int

type Reg struct {
	byName map[string][]int
	byId   map[int]string
	nested map[string]map[string]int
	cnt    int
}

type K1 struct {
	e interface{}
	n int
}

type K2 struct {
	p *int
	a [2]string
}

func (this *M) Total() int {
	t := 0
	for _, v := range *this {
		t += v
	}
	return t
}

func (this *Reg) Add(name string, id int) {
	if this.byName == nil {
		this.byName = make(map[string][]int)
		this.byId = make(map[int]string)
		this.nested = make(map[string]map[string]int)
	}
	this.byName[name] = append(this.byName[name], id)
	this.byId[id] = name
	in, ok := this.nested[name]
	if !ok {
		in = make(map[string]int)
		this.nested[name] = in
	}
	in[name+"!"]++
	this.cnt++
}

func fill(m map[int]int, n int) {
	for i := 0; i < n; i++ {
		m[i] = i * i
	}
}

func main() {
	m := M{"a": 1, "b": 2}
	m["c"] = 3
	println(m.Total(), len(m))
	var plain map[string]int = m
	plain["d"] = 4
	println(m.Total(), len(m), m["d"])

	var r Reg
	for i := 0; i < 50; i++ {
		r.Add("n"+string(rune('a'+i%5)), i)
	}
	println(r.cnt, len(r.byName), len(r.byId), len(r.nested), len(r.byName["nc"]), r.byName["nc"][9], r.nested["nb"]["nb!"], r.byId[37])
	r2 := r
	r2.byId[1000] = "shared"
	println(r.byId[1000], len(r.byId))

	a := make(map[int]int)
	fill(a, 100)
	b := a
	delete(b, 50)
	println(len(a), len(b), a[99], a[50])

	var nm map[int]int
	println(nm == nil, len(nm), nm[3])
	delete(nm, 3)
	v, ok := nm[1]
	println(v, ok, a != nil)

	// struct keys with interface / pointer / array fields
	x, y := 1, 1
	mk1 := make(map[K1]string)
	mk1[K1{e: 1, n: 1}] = "int1"
	mk1[K1{e: "1", n: 1}] = "str1"
	mk1[K1{e: nil, n: 1}] = "nil1"
	mk1[K1{e: 1, n: 2}] = "int1-2"
	mk1[K1{e: 1.5, n: 1}] = "f1"
	println(len(mk1), mk1[K1{e: 1, n: 1}], mk1[K1{e: "1", n: 1}], mk1[K1{e: nil, n: 1}], mk1[K1{e: 1, n: 2}], mk1[K1{e: 1.5, n: 1}], mk1[K1{e: 2, n: 1}] == "")
	mk2 := make(map[K2]string)
	mk2[K2{p: &x, a: [2]string{"a", "b"}}] = "x-ab"
	mk2[K2{p: &y, a: [2]string{"a", "b"}}] = "y-ab"
	mk2[K2{p: &x, a: [2]string{"a", "c"}}] = "x-ac"
	mk2[K2{p: nil}] = "nil"
	println(len(mk2), mk2[K2{p: &x, a: [2]string{"a", "b"}}], mk2[K2{p: &y, a: [2]string{"a", "b"}}], mk2[K2{p: &x, a: [2]string{"a", "c"}}], mk2[K2{}])

	// array keys
	ma := make(map[[3]int]int)
	for i := 0; i < 27; i++ {
		ma[[3]int{i % 3, (i / 3) % 3, i / 9}] = i
	}
	ma[[3]int{0, 0, 0}] = 100
	println(len(ma), ma[[3]int{0, 0, 0}], ma[[3]int{2, 2, 2}], ma[[3]int{1, 0, 2}])
	mas := make(map[[2]string]int)
	mas[[2]string{"", "ab"}] = 1
	mas[[2]string{"a", "b"}] = 2
	mas[[2]string{"ab", ""}] = 3
	println(len(mas), mas[[2]string{"", "ab"}], mas[[2]string{"a", "b"}], mas[[2]string{"ab", ""}])

	// map literal, composite values, compound assignment through map
	ml := map[string][]string{"x": {"1", "2"}, "y": nil}
	ml["y"] = append(ml["y"], "q")
	ml["z"] = append(ml["z"], "r", "s")
	println(len(ml), len(ml["x"]), ml["y"][0], ml["z"][1])
	mc := map[string]int{}
	mc["a"]++
	mc["a"] += 5
	mc["b"]--
	mc["c"] |= 6
	println(mc["a"], mc["b"], mc["c"], len(mc))

	// closures sharing a map
	shared := make(map[string]int)
	inc := func(k string) { shared[k]++ }
	get := func(k string) int { return shared[k] }
	for i := 0; i < 10; i++ {
		inc("k" + string(rune('0'+i%3)))
	}
	println(get("k0"), get("k1"), get("k2"), get("k3"), len(shared))

	// range: count and sums only (order-independent), update current value while ranging
	big := make(map[int]int)
	fill(big, 1000)
	n, sk, sv := 0, 0, 0
	for k, v := range big {
		big[k] = v + 1
		n++
		sk += k
		sv += v
	}
	sv2 := 0
	for _, v := range big {
		sv2 += v
	}
	println(n, sk, sv, sv2)
	// nested range over the same map
	small := map[int]int{1: 10, 2: 20, 3: 30}
	tot := 0
	for k1 := range small {
		for k2, v2 := range small {
			tot += k1*k2 + v2
		}
	}
	println(tot)
}
