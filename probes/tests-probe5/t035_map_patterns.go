package main

// twin: auto
func check(m map[int]int, lo, hi, step int, want bool) int {
	bad := 0
	for k := lo; k < hi; k += step {
		v, ok := m[k]
		if ok != want || (ok && v != k*3) {
			bad++
		}
	}
	return bad
}

func main() {
	const N = 60000
	m := make(map[int]int)
	bad := 0
	// ascending insert
	for i := 0; i < N; i++ {
		m[i] = i * 3
	}
	bad += check(m, 0, N, 1, true)
	println(len(m), bad)
	// delete ascending evens
	for i := 0; i < N; i += 2 {
		delete(m, i)
	}
	bad += check(m, 0, N, 2, false) + check(m, 1, N, 2, true)
	println(len(m), bad)
	// delete descending the rest except multiples of 5
	for i := N - 1; i > 0; i -= 2 {
		if i%5 != 0 {
			delete(m, i)
		}
	}
	cnt := 0
	for i := 0; i < N; i++ {
		_, ok := m[i]
		want := i%2 == 1 && i%5 == 0
		if ok != want {
			bad++
		}
		if ok {
			cnt++
		}
	}
	println(len(m), cnt, bad)
	// reinsert descending, overwrite everything
	for i := N - 1; i >= 0; i-- {
		m[i] = i * 3
	}
	bad += check(m, 0, N, 1, true)
	println(len(m), bad)
	// delete from the middle outwards
	for d := 0; d < N/2; d++ {
		delete(m, N/2+d)
		delete(m, N/2-1-d)
		if d%5000 == 0 {
			if len(m) != N-2*(d+1) {
				bad++
			}
		}
	}
	println(len(m), bad)
	// zig-zag: insert i, delete i-1
	for i := 0; i < N; i++ {
		m[i] = i * 3
		delete(m, i-1)
	}
	println(len(m), m[N-1], bad)
	// range sum
	for i := 0; i < 1000; i++ {
		m[i*7] = i * 21
	}
	n, sk := 0, 0
	for k, v := range m {
		n++
		sk += k
		if v != k*3 {
			bad++
		}
	}
	println(n, sk, bad)
}
