package main

// twin: auto
type Inner struct {
	tag  string
	nums []int
}

type Base struct {
	id   string
	meta map[string]string
}

func (this *Base) Describe() string {
	return this.id + ":" + this.meta["k"]
}

type Outer struct {
	Base
	in   Inner
	arr  [2]Inner
	ptr  *Inner
	any  interface{}
}

var G Outer = Outer{Base: Base{id: "global"}, in: Inner{tag: "gin"}}
var GS []string = []string{"g1", "g2"}
var GM map[string][]string = map[string][]string{"a": {"x"}}
var GA [3]string = [3]string{"p", "q", "r"}

func itoa(n int) string {
	if n == 0 {
		return "0"
	}
	s := ""
	for n > 0 {
		s = string(rune('0'+n%10)) + s
		n /= 10
	}
	return s
}

func churn(n int) {
	for i := 0; i < n; i++ {
		s := "junk" + itoa(i)
		_ = []string{s, s + s}
		_ = Outer{Base: Base{id: s}, in: Inner{tag: s, nums: []int{i}}}
	}
}

func mk(i int) Outer {
	o := Outer{Base: Base{id: "o" + itoa(i), meta: map[string]string{"k": "m" + itoa(i)}}}
	o.in = Inner{tag: "in" + itoa(i), nums: []int{i, i + 1}}
	o.arr[0] = Inner{tag: "a0_" + itoa(i)}
	o.arr[1] = Inner{tag: "a1_" + itoa(i), nums: []int{i * 2}}
	o.ptr = &Inner{tag: "p" + itoa(i)}
	o.any = Inner{tag: "any" + itoa(i)}
	return o
}

func byValue(o Outer) string {
	o.id = "changed"
	o.in.tag = "changed"
	o.arr[1].tag = "changed"
	o.in.nums[0] = -1 // shared backing array
	o.meta["k"] = "shared"
	return o.Describe()
}

func retArr(i int) [3]Inner {
	var a [3]Inner
	for j := range a {
		a[j] = Inner{tag: "r" + itoa(i+j), nums: []int{j}}
	}
	return a
}

func main() {
	o := mk(1)
	churn(30)
	println(byValue(o))
	println(o.id, o.in.tag, o.arr[1].tag, o.in.nums[0], o.meta["k"], o.Describe())
	p := o
	p.arr[0].tag = "p-only"
	p.ptr.tag = "both"
	p.in.nums = append(p.in.nums, 5)
	churn(30)
	println(o.arr[0].tag, p.arr[0].tag, o.ptr.tag, len(o.in.nums), len(p.in.nums))
	a := retArr(5)
	b := a
	b[1].tag = "b1"
	b[2].nums[0] = 42
	churn(30)
	println(a[1].tag, b[1].tag, a[2].nums[0], retArr(7)[2].tag)
	var e interface{} = a
	a[0].tag = "after-box"
	a2 := e.([3]Inner)
	println(a2[0].tag, a[0].tag)
	in := o.any.(Inner)
	in.tag += "!"
	println(in.tag, o.any.(Inner).tag)
	// globals
	G.meta = map[string]string{"k": "gm"}
	G.arr[1] = Inner{tag: "garr" + itoa(1)}
	g2 := G
	G.in.tag = "gin2"
	G.arr[1].tag = "reset"
	GS = append(GS, "g3"+itoa(3))
	GM["a"] = append(GM["a"], "y"+itoa(1))
	GM["b"] = GS[1:]
	ga := GA
	GA[1] = "Q" + itoa(2)
	churn(50)
	println(G.Describe(), g2.in.tag, g2.arr[1].tag, G.arr[1].tag, len(GS), GM["a"][1], GM["b"][1], ga[1], GA[1])
	// array of structs in slice, element copy out & back
	sl := []Outer{mk(10), mk(11), mk(12)}
	tmp := sl[0]
	sl[0] = sl[2]
	sl[2] = tmp
	sl[1].in.tag = "mid"
	x := sl[1]
	sl = sl[:1]
	sl = append(sl, mk(13))
	churn(50)
	println(sl[0].id, sl[1].id, x.in.tag, x.ptr.tag, tmp.Describe())
	// pointer to element, then slice grows (pointer keeps old array alive)
	ps := make([]Inner, 1, 1)
	ps[0].tag = "e0"
	pe := &ps[0]
	ps = append(ps, Inner{tag: "e1"})
	ps[0].tag = "e0-new"
	churn(50)
	println(pe.tag, ps[0].tag)
}
