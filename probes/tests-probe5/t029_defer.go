package main

// twin: auto
type Res struct {
	name string
	log  []string
}

var trace []string

func itoa(n int) string {
	if n == 0 {
		return "0"
	}
	s := ""
	for n > 0 {
		s = string(rune('0'+n%10)) + s
		n /= 10
	}
	return s
}

func churn(n int) {
	for i := 0; i < n; i++ {
		s := "junk" + itoa(i)
		_ = []string{s, s + s}
	}
}

func (this *Res) Close() {
	trace = append(trace, "close "+this.name)
}

func (this *Res) Log(s string) {
	this.log = append(this.log, s)
}

func open(name string) *Res {
	return &Res{name: name}
}

func work(n int) (out string) {
	r := open("r" + itoa(n))
	defer r.Close()
	for i := 0; i < 3; i++ {
		x := open("x" + itoa(n*10+i))
		defer x.Close()
		defer func(s string, k int) {
			out += "|" + s + itoa(k)
		}("d"+itoa(i), i)
		x.Log("in loop " + itoa(i))
		churn(5)
	}
	msg := "msg" + itoa(n)
	defer func() {
		out += "#" + msg
		msg = "changed"
	}()
	msg += "+"
	churn(20)
	if n%2 == 0 {
		return "even"
	}
	out = "odd"
	return
}

func nested(n int) []string {
	var acc []string
	defer func() {
		acc = append(acc, "deferred-too-late")
	}()
	for i := 0; i < n; i++ {
		func() {
			s := "it" + itoa(i)
			defer func() {
				acc = append(acc, s+"-done")
			}()
			acc = append(acc, s)
		}()
	}
	return acc
}

func argsEvalOrder() string {
	s := "a"
	r := ""
	defer func(x string) { trace = append(trace, "arg:"+x+" now:"+s) }(s)
	s = "b"
	sl := []string{"p", "q"}
	defer func(xs []string) { trace = append(trace, xs[0]+xs[1]) }(sl)
	sl[0] = "P"
	sl = []string{"new"}
	m := map[string]string{"k": "v1"}
	defer func(mm map[string]string) { trace = append(trace, mm["k"]) }(m)
	m["k"] = "v2"
	m = nil
	churn(30)
	return r + s
}

func main() {
	println(work(1))
	println(work(2))
	for _, t := range trace {
		print(t, ";")
	}
	println()
	trace = nil
	for _, s := range nested(3) {
		print(s, ";")
	}
	println()
	println(argsEvalOrder())
	for _, t := range trace {
		print(t, ";")
	}
	println()
}
