package main

// twin: auto
type Counter struct {
	n    int
	name string
	hist []string
}

type Handler struct {
	name string
	fn   func(s string) string
	next *Handler
}

func itoa(n int) string {
	if n == 0 {
		return "0"
	}
	s := ""
	for n > 0 {
		s = string(rune('0'+n%10)) + s
		n /= 10
	}
	return s
}

func churn(n int) {
	for i := 0; i < n; i++ {
		s := "junk" + itoa(i)
		_ = []string{s, s + s}
		_ = &Counter{name: s, hist: []string{s}}
	}
}

func (this *Counter) Inc() int {
	this.n++
	this.hist = append(this.hist, this.name+itoa(this.n))
	return this.n
}

func pair(label string) (func() string, func(s string)) {
	state := label
	log := []string{}
	get := func() string {
		return state + "/" + itoa(len(log))
	}
	set := func(s string) {
		log = append(log, state)
		state = s
	}
	return get, set
}

func compose(fs ...func(s string) string) func(s string) string {
	return func(s string) string {
		for _, f := range fs {
			s = f(s)
		}
		return s
	}
}

func mkAdder(pre string) func(s string) string {
	return func(s string) string { return pre + s }
}

func apply(h *Handler, s string) string {
	for ; h != nil; h = h.next {
		s = h.fn(s) + "<" + h.name + ">"
	}
	return s
}

func main() {
	get, set := pair("init")
	churn(30)
	println(get())
	set("one" + itoa(1))
	set("two" + itoa(2))
	churn(30)
	println(get())

	// method values bound to heap objects that are otherwise dropped
	var incs []func() int
	var cs []*Counter
	for i := 0; i < 3; i++ {
		c := &Counter{name: "c" + itoa(i)}
		incs = append(incs, c.Inc)
		if i == 1 {
			cs = append(cs, c)
		}
	}
	churn(30)
	for r := 0; r < 3; r++ {
		for _, f := range incs {
			f()
		}
	}
	println(incs[0](), incs[2](), cs[0].n, cs[0].hist[2])

	f := compose(mkAdder("a"+itoa(1)), mkAdder("b"+itoa(2)), func(s string) string { return s + s })
	churn(30)
	println(f("x"))

	var chain *Handler
	for i := 0; i < 4; i++ {
		k := itoa(i)
		chain = &Handler{name: "h" + k, fn: mkAdder(k), next: chain}
	}
	churn(30)
	println(apply(chain, "_"))
	chain.next.next = nil
	churn(30)
	println(apply(chain, "_"))

	// closure capturing a slice that is later re-sliced / re-assigned outside
	data := []string{"x" + itoa(0), "x" + itoa(1), "x" + itoa(2)}
	view := func() string { return data[0] + itoa(len(data)) }
	data = data[1:]
	println(view())
	data = append(data, "more")
	data[0] = "first"
	println(view())

	// immediately-invoked, nested closures three deep
	r := func(a string) func() func() string {
		b := a + "1"
		return func() func() string {
			c := b + "2"
			return func() string {
				return a + b + c
			}
		}
	}("z" + itoa(9))
	churn(30)
	println(r()())
}
