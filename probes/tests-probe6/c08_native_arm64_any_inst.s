.section .text
f:
    nop
