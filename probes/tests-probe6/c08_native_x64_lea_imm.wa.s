.intel_syntax noprefix
.section .text
.globl f
f:
    lea 1, rax
    ret
