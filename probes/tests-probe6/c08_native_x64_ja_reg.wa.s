.intel_syntax noprefix
.section .text
.globl f
f:
    ja rax
    ret
