.intel_syntax noprefix
.section .text
.globl f
f:
    mov a, rax
    ret
