.section .data
msg: .ascii sym
