.section .data
msg: .ascii 123
