.align
