# generators for the deep-nesting / scaling reproducers (C08)
import sys
kind, n = sys.argv[1], int(sys.argv[2])
if kind == 'nstruct':   # formatter super-quadratic: N=1600 -> 21 s, N=10^4 -> >180 s
    sys.stdout.write('global x: ' + 'struct{a: '*n + 'int' + '}'*n + '\n')
elif kind == 'nfunc':   # formatter super-quadratic
    sys.stdout.write('func main { x := ' + 'func() { '*n + '}'*n + ' }\n')
elif kind == 'nblock':  # formatter quadratic output: N=10^4 -> ~19 s, 750 MB
    sys.stdout.write('func main { ' + '{'*n + '}'*n + ' }\n')
elif kind == 'paren':   # parser quadratic: N=4*10^4 -> 9 s, N=10^5 -> 61 s; N=10^6 -> fatal stack overflow
    sys.stdout.write('func main { x := ' + '('*n + '1' + ')'*n + '\n}\n')
elif kind == 'paren_wz':
    sys.stdout.write('函数·主控:\n 甲 := ' + '('*n + '1' + ')'*n + '\n完毕\n')
elif kind == 'watblock': # wat parser: N=10^6 -> fatal stack overflow
    sys.stdout.write('(module (func ' + 'block '*n + 'end '*n + '))')
