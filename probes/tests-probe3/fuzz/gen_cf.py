#!/usr/bin/env python3
"""Random structured control-flow generator (Wa syntax, convertible by conv.py)."""
import random, sys

def gen(seed):
    R = random.Random(seed)
    lines = []
    labels = [0]
    def emit(ind, s): lines.append('\t'*ind + s)
    def cond():
        v = R.choice(['a','b','c','i0','h'])
        op = R.choice(['<','>','==','!=','<=','>='])
        k = R.randint(-3, 12)
        e = f'{v}%{R.randint(2,7)} {op} {k%5}'
        if R.random()<0.3:
            v2 = R.choice(['a','b','c'])
            e = f'{e} {R.choice(["&&","||"])} {v2}&{R.randint(1,7)} != 0'
        return e
    def stmt_simple(ind):
        r = R.random()
        if r<0.3: emit(ind, f'a += {R.randint(1,9)}')
        elif r<0.5: emit(ind, f'b = b*{R.randint(2,5)} + a')
        elif r<0.7: emit(ind, f'c ^= a + {R.randint(0,99)}')
        else: emit(ind, f'h = h*31 + u32(a&1023) + u32(b&255)*{R.randint(1,9)} + {R.randint(0,9999)}')
    def block(ind, depth, loops):
        n = R.randint(1,4)
        for _ in range(n):
            r = R.random()
            emit(ind, 'fuel--')
            emit(ind, 'if fuel < 0 {')
            emit(ind+1, 'return h + 7')
            emit(ind, '}')
            if depth<=0 or r<0.3:
                stmt_simple(ind)
            elif r<0.5:
                emit(ind, f'if {cond()} {{')
                block(ind+1, depth-1, loops)
                if R.random()<0.5:
                    if R.random()<0.3:
                        emit(ind, f'}} else if {cond()} {{')
                        block(ind+1, depth-1, loops)
                    emit(ind, '} else {')
                    block(ind+1, depth-1, loops)
                emit(ind, '}')
            elif r<0.75:
                labels[0]+=1
                lab = f'L{labels[0]}'
                iv = f'i{labels[0]}'
                use_label = R.random()<0.6
                if use_label: emit(ind-1 if ind>0 else 0, f'{lab}:')
                kind = R.random()
                if kind<0.5:
                    emit(ind, f'for {iv} := 0; {iv} < {R.randint(1,5)}; {iv}++ {{')
                elif kind<0.7:
                    emit(ind, f'for {iv} := range {R.randint(1,4)} {{')
                else:
                    emit(ind, f'for {iv} := 0; ; {iv}++ {{')
                    emit(ind+1, f'if {iv} > {R.randint(1,4)} {{')
                    emit(ind+2, 'break')
                    emit(ind+1, '}')
                emit(ind+1, f'i0 = i32({iv})')
                block(ind+1, depth-1, loops+[(lab if use_label else None)])
                emit(ind, '}')
            elif r<0.9:
                # switch
                tag = R.choice(['a%4','b%3','(a+c)%5', ''])
                emit(ind, f'switch {tag} {{' if tag else 'switch {')
                ncase = R.randint(1,3)
                used=set()
                for ci in range(ncase):
                    if tag:
                        k = R.randint(0,4)
                        while k in used: k = R.randint(0,9)
                        used.add(k)
                        if R.random()<0.3:
                            k2 = R.randint(10,20)
                            emit(ind, f'case {k}, {k2}:')
                        else:
                            emit(ind, f'case {k}:')
                    else:
                        emit(ind, f'case {cond()}:')
                    block(ind+1, depth-1, loops+['SW'])
                if R.random()<0.6:
                    emit(ind, 'default:')
                    block(ind+1, depth-1, loops+['SW'])
                emit(ind, '}')
            else:
                # jump
                real = [l for l in loops if l!='SW']
                if not loops:
                    stmt_simple(ind)
                else:
                    emit(ind, f'if {cond()} {{')
                    j = R.random()
                    labeled = [l for l in real if l]
                    if j<0.3 and labeled:
                        emit(ind+1, f'{R.choice(["break","continue"])} {R.choice(labeled)}')
                    elif j<0.6 and real:
                        emit(ind+1, 'continue')
                    elif j<0.9:
                        emit(ind+1, 'break')
                    else:
                        emit(ind+1, 'return h')
                    emit(ind, '}')
    emit(0, 'func f(a, b, c: i32) => u32 {')
    emit(1, 'var h: u32 = 17')
    emit(1, 'var i0: i32')
    emit(1, 'fuel := 3000')
    emit(1, '_ = i0')
    block(1, 3, [])
    emit(1, 'return h + u32(a&0xff) + u32(b&0xff)<<8 + u32(c&0xff)<<16')
    emit(0, '}')
    emit(0, '')
    emit(0, 'func main {')
    emit(1, 'for a := i32(0); a < 4; a++ {')
    emit(2, 'for b := i32(0); b < 3; b++ {')
    emit(3, 'println(f(a, b, a*7+b))')
    emit(2, '}')
    emit(1, '}')
    emit(0, '}')
    import re
    text='\n'.join(lines)+'\n'
    out=[]
    for ln in lines:
        m=re.match(r'^\s*(L\d+):$', ln)
        if m and not re.search(r'(break|continue) '+m.group(1)+r'\b', text):
            continue
        out.append(ln)
    return '\n'.join(out)+'\n'

if __name__=='__main__':
    print(gen(int(sys.argv[1])), end='')
