#!/usr/bin/env python3
"""Random integer expression generator across widths (Wa syntax)."""
import random, sys
TYPES = {'u8':8,'u16':16,'u32':32,'u64':64,'i32':32,'i64':64}
def gen(seed):
    R = random.Random(seed)
    vars_ = {}
    lines = ['func main {']
    edge = {
        'u8':[0,1,2,127,128,255,200,77],
        'u16':[0,1,255,256,32767,32768,65535,12345],
        'u32':[0,1,65535,65536,2147483647,2147483648,4294967295,305419896],
        'u64':[0,1,4294967295,4294967296,9223372036854775807,9223372036854775808,18446744073709551615,1311768467463790320],
        'i32':[0,1,-1,127,-128,32767,-32768,2147483647,-2147483648,305419896,-19088744],
        'i64':[0,1,-1,2147483647,-2147483648,4294967296,-4294967296,9223372036854775807,-9223372036854775808,1311768467463790320],
    }
    for t in TYPES:
        for k in range(6):
            name=f'{t}_{k}'
            vars_.setdefault(t,[]).append(name)
            lines.append(f'\tvar {name}: {t} = {R.choice(edge[t])}')
            lines.append(f'\t_ = {name}')
    def expr(t, d):
        if d<=0 or R.random()<0.2:
            return R.choice(vars_[t])
        r=R.random()
        if r<0.45:
            op=R.choice(['+','-','*','&','|','^','&^'])
            return f'({expr(t,d-1)} {op} {expr(t,d-1)})'
        if r<0.55:
            op=R.choice(['/','%'])
            w=TYPES[t]
            # divisor strictly positive and small-ish => no div by zero, no MinInt/-1
            return f'({expr(t,d-1)} {op} (({expr(t,d-1)} & {t}({(1<<(w-2))-1})) + 1))'
        if r<0.7:
            op=R.choice(['<<','>>'])
            w=TYPES[t]
            ct=R.choice(['u8','u16','u32','u64'])
            return f'({expr(t,d-1)} {op} ({expr(ct,d-2)} & {w-1}))'
        if r<0.8:
            op=R.choice(['-','^'])
            return f'({op}{expr(t,d-1)})'
        # conversion from another type
        t2=R.choice([x for x in TYPES if x!=t])
        return f'{t}({expr(t2,d-1)})'
    def bexpr(d):
        t=R.choice(list(TYPES))
        op=R.choice(['<','<=','==','!=','>','>='])
        return f'({expr(t,d)} {op} {expr(t,d)})'
    for i in range(40):
        t=R.choice(list(TYPES))
        r=R.random()
        if r<0.75:
            lines.append(f'\tprintln({i}, {expr(t,4)})')
        elif r<0.9:
            lines.append(f'\tprintln({i}, {bexpr(3)})')
        else:
            v=R.choice(vars_[t])
            op=R.choice(['+=','-=','*=','^=','|=','&='])
            lines.append(f'\t{v} {op} {expr(t,3)}')
            lines.append(f'\tprintln({i}, {v})')
    lines.append('}')
    return '\n'.join(lines)+'\n'
if __name__=='__main__':
    print(gen(int(sys.argv[1])), end='')
