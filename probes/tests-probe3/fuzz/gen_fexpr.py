#!/usr/bin/env python3
import random, sys
def gen(seed):
    R=random.Random(seed)
    L=['import "math"','','func main {']
    ed64=['0.0','1.0','-1.0','0.1','1e10','-3.75','1e-7','123456.789','2.5','1e300','1e-300','16777217.0','0.333333333333','-0.0000001']
    names={'f64':[], 'f32':[], 'i32':[], 'i64':[], 'u8':[]}
    for k in range(6):
        L.append(f'\tvar d{k}: f64 = {R.choice(ed64)}'); L.append(f'\t_ = d{k}'); names['f64'].append(f'd{k}')
        v=R.choice(['0.0','1.0','-1.5','0.1','16777216.0','3.4e10','1e-5','2.5','-7.125'])
        L.append(f'\tvar s{k}: f32 = {v}'); L.append(f'\t_ = s{k}'); names['f32'].append(f's{k}')
    for k in range(3):
        L.append(f'\tvar i{k}: i32 = {R.choice([0,1,-1,7,-100,2147483647,-2147483648,16777217])}'); L.append(f'\t_ = i{k}'); names['i32'].append(f'i{k}')
        L.append(f'\tvar l{k}: i64 = {R.choice([0,1,-1,9007199254740993,-9007199254740993,1<<40,-(1<<62)])}'); L.append(f'\t_ = l{k}'); names['i64'].append(f'l{k}')
        L.append(f'\tvar b{k}: u8 = {R.choice([0,1,200,255])}'); L.append(f'\t_ = b{k}'); names['u8'].append(f'b{k}')
    def ex(t,d):
        if d<=0 or R.random()<0.2: return R.choice(names[t])
        r=R.random()
        if r<0.6:
            return f'({ex(t,d-1)} {R.choice("+-*/")} {ex(t,d-1)})'
        if r<0.7: return f'(-{ex(t,d-1)})'
        if r<0.85:
            o='f32' if t=='f64' else 'f64'
            return f'{t}({ex(o,d-1)})'
        if t=='f64' and r<0.92:
            return f'math.{R.choice(["Sqrt","Abs"])}({ex(t,d-1)}*{ex(t,d-1)}+1)'
        return f'{t}({R.choice(names[R.choice(["i32","i64","u8"])])})'
    for n in range(40):
        t=R.choice(['f64','f32'])
        if R.random()<0.8:
            if t=='f64': L.append(f'\tprintln({n}, math.Float64bits({ex(t,4)}))')
            else: L.append(f'\tprintln({n}, math.Float32bits({ex(t,4)}))')
        else:
            L.append(f'\tprintln({n}, {ex(t,3)} {R.choice(["<","<=","==","!=",">",">="])} {ex(t,3)})')
    L.append('}')
    return '\n'.join(L)+'\n'
print(gen(int(sys.argv[1])),end='')
