#!/usr/bin/env python3
"""Convert the Go-like subset of Wa used by the probes into Go.
Conventions the probes follow:
  - receivers/params written `name: Type`, results after `=>`
  - locals with explicit type always use `var x: T = v`
  - struct/interface type bodies are multi-line, one field per line
  - lines ending with `//wa-only` are dropped; `//go: <text>` lines become <text>
"""
import re, sys

SIG = re.compile(r'\bfunc\b')
NAME_COLON = re.compile(r'(\b[A-Za-z_]\w*(?:\s*,\s*[A-Za-z_]\w*)*):\s*(?=[\[\]\*A-Za-z_(\.])')

def conv_sig_segments(line):
    # for every `func` keyword, convert up to the next '{' (or end of line)
    out = ''
    i = 0
    while True:
        m = SIG.search(line, i)
        if not m:
            out += line[i:]
            break
        out += line[i:m.start()]
        # find end: the '{' that opens the body at paren depth 0
        j = m.end()
        depth = 0
        while j < len(line):
            c = line[j]
            if c in '([':
                depth += 1
            elif c in ')]':
                depth -= 1
                if depth < 0:
                    break
            elif c == '{' and depth == 0:
                # could be `struct{` / `interface{` type inside signature: check preceding word
                pre = line[m.end():j].rstrip()
                if pre.endswith('interface') or pre.endswith('struct'):
                    # skip matching }
                    k = line.find('}', j)
                    j = k
                else:
                    break
            j += 1
        seg = line[m.start():j]
        seg = NAME_COLON.sub(lambda mm: mm.group(1) + ' ', seg)
        seg = seg.replace('=>', '')
        out += seg
        i = j
    return out

def main():
    src = open(sys.argv[1]).read().split('\n')
    out = ['package main', '']
    in_type = 0
    in_group = False
    for line in src:
        if line.rstrip().endswith('//wa-only'):
            continue
        m = re.match(r'\s*//go: ?(.*)$', line)
        if m:
            out.append(m.group(1)); continue
        s = line
        st = s.strip()
        if in_type:
            if st.startswith('}'):
                in_type -= 1
            else:
                if 'func' in s:
                    s = conv_sig_segments(s)
                s = NAME_COLON.sub(lambda mm: mm.group(1) + ' ', s, count=1)
                # interface methods: params + =>
                s2 = s
                if '(' in s2:
                    s2 = NAME_COLON.sub(lambda mm: mm.group(1) + ' ', s2)
                s = s2.replace('=>', '')
                if st.endswith('{'):
                    in_type += 1
            out.append(s); continue
        if re.match(r'\s*type\s+\w+\s+:?(struct|interface)\s*\{\s*$', s):
            s = s.replace(':struct', 'struct').replace(':interface', 'interface')
            in_type = 1
            out.append(s); continue
        s = re.sub(r'^(\s*type\s+\w+)\s+:', r'\1 ', s)
        if re.search(r'\b(struct|interface)\s*\{\s*$', s):
            in_type = 1
            out.append(s); continue
        # Wa-native method syntax: func T.M(...) / func T.M => R { / func T.M {
        mm = re.match(r'^func ([A-Za-z_]\w*)\.([A-Za-z_]\w*)\s*(\(?)(.*)$', s)
        if mm:
            rest = mm.group(4)
            if mm.group(3) == '(':
                s = 'func (this *%s) %s(%s' % (mm.group(1), mm.group(2), rest)
            else:
                s = 'func (this *%s) %s() %s' % (mm.group(1), mm.group(2), rest)
        if 'func' in s:
            s = conv_sig_segments(s)
        if re.match(r'^\s*(const|var|global)\s*\(\s*$', s):
            in_group = True
            s = s.replace('global', 'var')
            out.append(s); continue
        if in_group:
            if st == ')':
                in_group = False
            else:
                s = NAME_COLON.sub(lambda mm: mm.group(1) + ' ', s, count=1) if re.match(r'^\s*[A-Za-z_]\w*(\s*,\s*[A-Za-z_]\w*)*:\s*[\w\[\]\*\.]+(\s*=.*)?$', s) else s
            out.append(s); continue
        m = re.match(r'^(\s*)const\s+(.*)$', s)
        if m:
            body = m.group(2)
            if re.match(r'^[A-Za-z_]\w*:\s*[\w\[\]\*\.]+\s*=', body):
                body = NAME_COLON.sub(lambda mm: mm.group(1) + ' ', body, count=1)
            s = m.group(1) + 'const ' + body
            out.append(s); continue
        m = re.match(r'^(\s*)(var|global)\s+(.*)$', s)
        if m:
            body = NAME_COLON.sub(lambda mm: mm.group(1) + ' ', m.group(3), count=1)
            s = m.group(1) + 'var ' + body
        # Wa-native local declaration: x: T = v  /  x: T
        mm = re.match(r'^(\s+)([A-Za-z_]\w*(?:\s*,\s*[A-Za-z_]\w*)*):\s*([\[\]\*\w\.]+)\s*(=.*)?$', s)
        if mm and not s.rstrip().endswith(',') and not re.match(r'^\s*(case|default)\b', s):
            s = '%svar %s %s %s' % (mm.group(1), mm.group(2), mm.group(3), mm.group(4) or '')
        if re.match(r'^\s*func main \{', s):
            s = s.replace('func main {', 'func main() {')
        out.append(s)
    open(sys.argv[2], 'w').write('\n'.join(out) + '\n')

main()
