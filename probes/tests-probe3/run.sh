#!/bin/bash
# usage: run.sh t001 t002 ...   (names without extension); no args = all
export GOFLAGS=-mod=mod GOPROXY=off GOSUMDB=off GOTOOLCHAIN=local GOWORK=off
cd /tmp/probe3/out/tests
if [ $# -eq 0 ]; then set -- $(ls t*.wa | sed 's/\.wa$//'); fi
was=()
for t in "$@"; do was+=("$t.wa"); done
for t in "$@"; do rm -f $t.waout; done
printf "%s\n" "${was[@]}" | xargs -P 8 -I{} sh -c 'timeout 30 ${PROBE:-/tmp/probe3/probe} {} > {}.log 2>&1; if [ ! -s $(basename {} .wa).waout ] || [ -s {}.log ]; then (cat {}.log | head -c 1500; echo) >> $(basename {} .wa).waout; fi; rm -f {}.log'
for t in "$@"; do
  mkdir -p gotwin/$t
  python3 conv.py $t.wa gotwin/$t/main.go
  cp prelude.go.txt gotwin/$t/prelude.go
  (cd gotwin && timeout 120 go run ./$t > ../$t.goout 2>&1)
  if cmp -s $t.waout $t.goout; then echo "SAME $t"; else echo "DIFF $t"; diff <(head -c 3000 $t.waout) <(head -c 3000 $t.goout) | head -${DIFFLINES:-30}; fi
done
