package main

type S struct {
	x i32
	a [2]i32
	sl []i32
	n string
}

func mod(s S) {
	s.x = 100
	s.a[0] = 100
	s.sl[0] = 100
	s.sl = append(s.sl, 5)
	s.n = "changed"
}

func main() {
	s := S{1, [2]i32{1, 2}, []i32{1, 2}, "n"}
	var i interface{} = s
	s.x = 2
	s.a[1] = 20
	println(i.(S).x, i.(S).a[1], s.x)
	t := i.(S)
	t.x = 3
	println(i.(S).x, t.x)
	var j interface{} = s.a
	s.a[0] = 50
	println(j.([2]i32)[0])
	mod(s)
	println(s.x, s.a[0], s.sl[0], len(s.sl), s.n)
	ss := []S{s}
	c := ss[0]
	c.x = 9
	ss[0].a[1] = 8
	println(ss[0].x, c.x, c.a[1], ss[0].a[1])
	for _, e := range ss {
		e.x = 77
	}
	println(ss[0].x)
	m := map[string]S{"k": s}
	mc := m["k"]
	mc.a[0] = 1234
	println(m["k"].a[0], mc.a[0])
	ps := &s
	var k interface{} = ps
	ps.x = 42
	println(k.(*S).x)
	// array of arrays copy
	g := [2][2]i32{{1, 2}, {3, 4}}
	row := g[1]
	row[0] = 30
	println(g[1][0], row[0])
	pr := &g[0]
	pr[1] = 20
	println(g[0][1])
	// struct returned from func is a copy each time
	f := func()  S { return s }
	r1 := f()
	r1.a[0] = 7
	println(s.a[0], r1.a[0], f().a[0])
	// interface copy: assign iface to iface then modify underlying via pointer
	var e1 interface{} = &s
	e2 := e1
	e1.(*S).x = 5
	println(e2.(*S).x)
	// string immutability through []byte round trip in struct
	b := []byte(s.n)
	b[0] = 'X'
	println(s.n, string(b))
}

