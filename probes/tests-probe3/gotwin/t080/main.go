package main

// evaluation order, aliasing, equality of composite types
var trace string

func t(s string, v i32)  i32 {
	trace += s
	return v
}

type In struct {
	a [2]string
	f f64
	i interface{}
	p *i32
}

type Out struct {
	in In
	arr [2]In
	b bool
}

func get()  []i32 {
	trace += "g"
	return []i32{1, 2, 3}
}

func main() {
	// operand order
	r := t("a", 1) + t("b", 2)*t("c", 3)
	println(r, trace)
	trace = ""
	arr := []i32{10, 20, 30}
	arr[t("i", 1)] = t("v", 5)
	println(arr[1], trace)
	trace = ""
	get()[t("x", 2)] = t("y", 1)
	println(trace)
	trace = ""
	m := map[i32]i32{}
	m[t("k", 1)] = t("v", 2)
	println(m[1], trace)
	trace = ""
	f := func(a, b, c i32)  i32 { return a*100 + b*10 + c }
	println(f(t("1", 1), t("2", 2), t("3", 3)), trace)
	trace = ""
	// tuple assignment evaluates RHS first
	i := 0
	a := []i32{5, 6, 7}
	i, a[i] = 1, 9
	println(i, a[0], a[1])
	a[0], a[1], a[2] = a[2], a[0], a[1]
	println(a[0], a[1], a[2])
	x, y, z := 1, 2, 3
	x, y, z = z, x, y
	println(x, y, z)
	// struct deep equality
	n := i32(1)
	o1 := Out{in: In{a: [2]string{"x", "y"}, f: 1.5, i: "s", p: &n}, b: true}
	o2 := o1
	println(o1 == o2)
	o2.arr[1].a[0] = "q"
	println(o1 == o2, o1 != o2)
	o2 = o1
	o2.in.i = i32(5)
	println(o1 == o2)
	o2 = o1
	o2.in.a[1] = "y" + ""
	println(o1 == o2)
	n2 := i32(1)
	o2.in.p = &n2
	println(o1 == o2)
	// NaN in struct
	var zero f64
	nan := zero / zero
	s1 := In{f: nan}
	s2 := s1
	println(s1 == s2, s1.f != s1.f)
	aa := [2]f64{nan, 1}
	bb := aa
	println(aa == bb)
	// -0 == 0
	negz := -zero
	println([1]f64{negz} == [1]f64{zero})
	// interface holding struct/array compare
	var i1 interface{} = In{f: 1}
	var i2 interface{} = In{f: 1}
	println(i1 == i2)
	i2 = In{f: 2}
	println(i1 == i2)
	// append self-aliasing
	s := []i32{0, 1, 2, 3, 4, 5}
	s = append(s[:1], s[2:]...)
	for _, v := range s {
		print(v, " ")
	}
	println(len(s))
	s = []i32{0, 1, 2, 3, 4, 5}
	s = append(s[:3], append([]i32{99}, s[3:]...)...)
	for _, v := range s {
		print(v, " ")
	}
	println(len(s))
	// string <-> []byte aliasing
	bs := []byte("abc")
	str := string(bs)
	bs[0] = 'X'
	println(str, string(bs))
	str2 := "hello"
	bs2 := []byte(str2)
	bs2[0] = 'J'
	println(str2, string(bs2))
	// array assignment copies; array in struct; array passed to closure
	a1 := [3]i32{1, 2, 3}
	fn := func(p [3]i32)  i32 { p[0] = 100; return p[0] }
	println(fn(a1), a1[0])
	pa := &a1
	a2 := *pa
	pa[0] = 50
	println(a1[0], a2[0])
	// method value binds receiver at evaluation
	c := &Counter{1}
	inc := c.Inc
	c = &Counter{100}
	println(inc(), c.n)
	// range evaluates expression once
	cnt := 0
	for range get() {
		cnt++
	}
	println(cnt, trace)
	// index out of constant string/array compile-time OK
	const cs = "hey"
	println(cs[1])
	// boolean ops
	t1, t2 := true, false
	println(t1 && !t2, t1 != t2, t1 == t2, !t1 || t2, t1 && t2 || !t2)
}

type Counter struct {
	n i32
}

func (c *Counter) Inc()  i32 {
	c.n++
	return c.n
}

