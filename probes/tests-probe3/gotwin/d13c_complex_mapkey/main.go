package main

func main() {
	m := map[complex128]i32{}
	m[complex(1, 2)]++
	println(len(m))
}

