package main

import "unicode/utf8"

func main() {
	inputs := []string{"", "a", "é", "世", "\U0001F600", "\xff", "\xc0\x80", "\xe4\xb8", "\xed\xa0\x80", "\xf4\x90\x80\x80", "\xf0\x9f\x98", "a\xffb", "\x80", "\xc3", "\xe0\x80\x80", "\xef\xbf\xbd", "\xf8\x88\x80\x80\x80", "ab世\xe4c"}
	for _, s := range inputs {
		r, n := utf8.DecodeRuneInString(s)
		r2, n2 := utf8.DecodeLastRuneInString(s)
		b := []byte(s)
		r3, n3 := utf8.DecodeRune(b)
		r4, n4 := utf8.DecodeLastRune(b)
		println(len(s), i64(r), n, i64(r2), n2, i64(r3), n3, i64(r4), n4, utf8.ValidString(s), utf8.Valid(b), utf8.RuneCountInString(s), utf8.RuneCount(b), utf8.FullRuneInString(s), utf8.FullRune(b))
		if len(s) > 0 {
			println(utf8.RuneStart(s[0]), utf8.RuneStart(s[len(s)-1]))
		}
	}
	rs := []rune{0, 'a', 0x7f, 0x80, 0x7ff, 0x800, 0xd7ff, 0xd800, 0xdfff, 0xe000, 0xfffd, 0xffff, 0x10000, 0x10ffff, 0x110000, -1}
	for _, r := range rs {
		buf := make([]byte, 4)
		n := utf8.EncodeRune(buf, r)
		println(i64(r), utf8.RuneLen(r), utf8.ValidRune(r), n, buf[0], buf[1], buf[2], buf[3], string(utf8.AppendRune([]byte("x"), r)))
	}
	println(utf8.RuneError, utf8.MaxRune, utf8.UTFMax, utf8.RuneSelf)
}

