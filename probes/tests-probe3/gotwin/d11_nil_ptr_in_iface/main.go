package main

type E struct {
}

func (e *E) Error()  string { return "E" }

func f()  error {
	var p *E
	return p
}

func main() {
	err := f()
	println(err == nil, err != nil)
	var i interface{} = (*E)(nil)
	switch i.(type) {
	case nil:
		println("nil")
	case *E:
		println("*E")
	}
	_, ok := i.(*E)
	println(ok)
}

