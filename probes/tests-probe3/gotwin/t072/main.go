package main

func main() {
	a := complex(1, 2)
	h := -a
	println(i32(real(h)), i32(imag(h)))
}

