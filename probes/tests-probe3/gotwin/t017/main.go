package main

func main() {
	var c32 i32 = 5
	var c64 i64 = 5
	var cint int = 5
	var cu8 u8 = 5
	var cu64 u64 = 5
	var a i32 = -1000
	var b i64 = -100000000000
	var u u8 = 0xf1
	var w u16 = 0xf001
	var x u32 = 0xf0000001
	var y u64 = 0xf000000000000001
	println(a<<c32, a>>c32, a<<c64, a>>c64, a<<cint, a>>cu8, a<<cu64, a>>cu64)
	println(b<<c32, b>>c32, b<<c64, b>>c64, b<<cint, b>>cu8, b<<cu64, b>>cu64)
	println(u<<c32, u>>c32, u<<c64, u>>c64, u<<cint, u>>cu8, u<<cu64, u>>cu64)
	println(w<<c32, w>>c32, w<<c64, w>>c64, w<<cint, w>>cu8, w<<cu64, w>>cu64)
	println(x<<c32, x>>c32, x<<c64, x>>c64, x<<cint, x>>cu8, x<<cu64, x>>cu64)
	println(y<<c32, y>>c32, y<<c64, y>>c64, y<<cint, y>>cu8, y<<cu64, y>>cu64)
	// 64-bit count with high bits set but low 32 bits small would be >= width in Go: skip (known)
	// shift in index / compound
	arr := [40]i32{}
	arr[1<<c32] = 7
	println(arr[32])
	a <<= c64
	b >>= cu8
	u >>= c32
	println(a, b, u)
	// constant shift counts
	println(a<<31, b<<63, u<<7, w<<15, x<<31, y<<63, a>>31, b>>63)
	// shift result used as bool compare and mask
	var bit u32 = 17
	flags := u32(1)<<bit | u32(1)<<(bit+1)
	println(flags&(1<<bit) != 0, flags&(1<<(bit+2)) != 0, flags>>bit&3)
}

