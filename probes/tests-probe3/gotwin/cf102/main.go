package main

func f(a, b, c i32)  u32 {
	var h u32 = 17
	var i0 i32
	fuel := 3000
	_ = i0
	fuel--
	if fuel < 0 {
		return h + 7
	}
	for i1 := range 2 {
		i0 = i32(i1)
		fuel--
		if fuel < 0 {
			return h + 7
		}
		b = b*2 + a
		fuel--
		if fuel < 0 {
			return h + 7
		}
		for i2 := 0; ; i2++ {
			if i2 > 2 {
				break
			}
			i0 = i32(i2)
			fuel--
			if fuel < 0 {
				return h + 7
			}
			if h%2 > 4 {
				fuel--
				if fuel < 0 {
					return h + 7
				}
				h = h*31 + u32(a&1023) + u32(b&255)*9 + 8612
				fuel--
				if fuel < 0 {
					return h + 7
				}
				c ^= a + 80
				fuel--
				if fuel < 0 {
					return h + 7
				}
				a += 2
				fuel--
				if fuel < 0 {
					return h + 7
				}
				b = b*3 + a
			}
			fuel--
			if fuel < 0 {
				return h + 7
			}
			for i3 := 0; i3 < 2; i3++ {
				i0 = i32(i3)
				fuel--
				if fuel < 0 {
					return h + 7
				}
				c ^= a + 80
				fuel--
				if fuel < 0 {
					return h + 7
				}
				a += 8
				fuel--
				if fuel < 0 {
					return h + 7
				}
				h = h*31 + u32(a&1023) + u32(b&255)*5 + 5177
			}
			fuel--
			if fuel < 0 {
				return h + 7
			}
			for i4 := 0; ; i4++ {
				if i4 > 4 {
					break
				}
				i0 = i32(i4)
				fuel--
				if fuel < 0 {
					return h + 7
				}
				h = h*31 + u32(a&1023) + u32(b&255)*9 + 2660
				fuel--
				if fuel < 0 {
					return h + 7
				}
				h = h*31 + u32(a&1023) + u32(b&255)*9 + 792
			}
			fuel--
			if fuel < 0 {
				return h + 7
			}
			if i0%2 > 1 {
				fuel--
				if fuel < 0 {
					return h + 7
				}
				b = b*3 + a
				fuel--
				if fuel < 0 {
					return h + 7
				}
				b = b*3 + a
				fuel--
				if fuel < 0 {
					return h + 7
				}
				b = b*3 + a
				fuel--
				if fuel < 0 {
					return h + 7
				}
				c ^= a + 1
			} else {
				fuel--
				if fuel < 0 {
					return h + 7
				}
				h = h*31 + u32(a&1023) + u32(b&255)*1 + 6843
				fuel--
				if fuel < 0 {
					return h + 7
				}
				a += 8
			}
		}
		fuel--
		if fuel < 0 {
			return h + 7
		}
		if b%7 != 3 && c&1 != 0 {
			fuel--
			if fuel < 0 {
				return h + 7
			}
			h = h*31 + u32(a&1023) + u32(b&255)*8 + 9366
			fuel--
			if fuel < 0 {
				return h + 7
			}
			switch b%3 {
			case 0:
				fuel--
				if fuel < 0 {
					return h + 7
				}
				h = h*31 + u32(a&1023) + u32(b&255)*8 + 2283
				fuel--
				if fuel < 0 {
					return h + 7
				}
				a += 4
				fuel--
				if fuel < 0 {
					return h + 7
				}
				b = b*3 + a
				fuel--
				if fuel < 0 {
					return h + 7
				}
				h = h*31 + u32(a&1023) + u32(b&255)*2 + 7779
			case 2, 12:
				fuel--
				if fuel < 0 {
					return h + 7
				}
				a += 4
				fuel--
				if fuel < 0 {
					return h + 7
				}
				h = h*31 + u32(a&1023) + u32(b&255)*3 + 7392
			}
			fuel--
			if fuel < 0 {
				return h + 7
			}
			if a%5 == 1 {
				fuel--
				if fuel < 0 {
					return h + 7
				}
				h = h*31 + u32(a&1023) + u32(b&255)*1 + 4272
				fuel--
				if fuel < 0 {
					return h + 7
				}
				a += 9
				fuel--
				if fuel < 0 {
					return h + 7
				}
				h = h*31 + u32(a&1023) + u32(b&255)*4 + 1094
				fuel--
				if fuel < 0 {
					return h + 7
				}
				c ^= a + 25
			}
			fuel--
			if fuel < 0 {
				return h + 7
			}
			c ^= a + 71
		}
		fuel--
		if fuel < 0 {
			return h + 7
		}
		a += 2
	}
	fuel--
	if fuel < 0 {
		return h + 7
	}
	h = h*31 + u32(a&1023) + u32(b&255)*3 + 4255
	return h + u32(a&0xff) + u32(b&0xff)<<8 + u32(c&0xff)<<16
}

func main() {
	for a := i32(0); a < 4; a++ {
		for b := i32(0); b < 3; b++ {
			println(f(a, b, a*7+b))
		}
	}
}

