package main

func f(a, b, c i32)  u32 {
	var h u32 = 17
	var i0 i32
	fuel := 3000
	_ = i0
	fuel--
	if fuel < 0 {
		return h + 7
	}
	c ^= a + 27
	fuel--
	if fuel < 0 {
		return h + 7
	}
	for i1 := 0; ; i1++ {
		if i1 > 4 {
			break
		}
		i0 = i32(i1)
		fuel--
		if fuel < 0 {
			return h + 7
		}
		switch a%4 {
		case 0, 19:
			fuel--
			if fuel < 0 {
				return h + 7
			}
			h = h*31 + u32(a&1023) + u32(b&255)*3 + 9948
		case 4, 16:
			fuel--
			if fuel < 0 {
				return h + 7
			}
			c ^= a + 98
			fuel--
			if fuel < 0 {
				return h + 7
			}
			switch b%3 {
			case 2, 13:
				fuel--
				if fuel < 0 {
					return h + 7
				}
				h = h*31 + u32(a&1023) + u32(b&255)*4 + 8654
				fuel--
				if fuel < 0 {
					return h + 7
				}
				h = h*31 + u32(a&1023) + u32(b&255)*9 + 3163
				fuel--
				if fuel < 0 {
					return h + 7
				}
				a += 8
				fuel--
				if fuel < 0 {
					return h + 7
				}
				a += 9
			default:
				fuel--
				if fuel < 0 {
					return h + 7
				}
				b = b*2 + a
			}
			fuel--
			if fuel < 0 {
				return h + 7
			}
			if a%7 <= 0 {
				fuel--
				if fuel < 0 {
					return h + 7
				}
				c ^= a + 50
			} else {
				fuel--
				if fuel < 0 {
					return h + 7
				}
				a += 8
				fuel--
				if fuel < 0 {
					return h + 7
				}
				b = b*4 + a
				fuel--
				if fuel < 0 {
					return h + 7
				}
				c ^= a + 72
			}
			fuel--
			if fuel < 0 {
				return h + 7
			}
			a += 7
		default:
			fuel--
			if fuel < 0 {
				return h + 7
			}
			for i2 := 0; i2 < 3; i2++ {
				i0 = i32(i2)
				fuel--
				if fuel < 0 {
					return h + 7
				}
				c ^= a + 41
			}
		}
		fuel--
		if fuel < 0 {
			return h + 7
		}
		c ^= a + 29
		fuel--
		if fuel < 0 {
			return h + 7
		}
		for i3 := 0; i3 < 2; i3++ {
			i0 = i32(i3)
			fuel--
			if fuel < 0 {
				return h + 7
			}
			c ^= a + 76
			fuel--
			if fuel < 0 {
				return h + 7
			}
			c ^= a + 84
		}
		fuel--
		if fuel < 0 {
			return h + 7
		}
		if i0%4 == 1 {
			break
		}
	}
	fuel--
	if fuel < 0 {
		return h + 7
	}
	switch {
	case b%4 != 0:
		fuel--
		if fuel < 0 {
			return h + 7
		}
		for i4 := range 4 {
			i0 = i32(i4)
			fuel--
			if fuel < 0 {
				return h + 7
			}
			a += 8
			fuel--
			if fuel < 0 {
				return h + 7
			}
			if i0%5 > 1 {
				fuel--
				if fuel < 0 {
					return h + 7
				}
				h = h*31 + u32(a&1023) + u32(b&255)*6 + 2482
			} else {
				fuel--
				if fuel < 0 {
					return h + 7
				}
				a += 1
				fuel--
				if fuel < 0 {
					return h + 7
				}
				c ^= a + 87
				fuel--
				if fuel < 0 {
					return h + 7
				}
				a += 1
				fuel--
				if fuel < 0 {
					return h + 7
				}
				a += 6
			}
			fuel--
			if fuel < 0 {
				return h + 7
			}
			switch a%4 {
			case 2:
				fuel--
				if fuel < 0 {
					return h + 7
				}
				h = h*31 + u32(a&1023) + u32(b&255)*5 + 6224
				fuel--
				if fuel < 0 {
					return h + 7
				}
				b = b*3 + a
				fuel--
				if fuel < 0 {
					return h + 7
				}
				h = h*31 + u32(a&1023) + u32(b&255)*9 + 7655
			case 4:
				fuel--
				if fuel < 0 {
					return h + 7
				}
				a += 9
				fuel--
				if fuel < 0 {
					return h + 7
				}
				h = h*31 + u32(a&1023) + u32(b&255)*8 + 6555
				fuel--
				if fuel < 0 {
					return h + 7
				}
				a += 5
			case 3, 12:
				fuel--
				if fuel < 0 {
					return h + 7
				}
				b = b*4 + a
			}
		}
		fuel--
		if fuel < 0 {
			return h + 7
		}
		if a%7 < 4 {
			fuel--
			if fuel < 0 {
				return h + 7
			}
			switch (a+c)%5 {
			case 3:
				fuel--
				if fuel < 0 {
					return h + 7
				}
				a += 9
				fuel--
				if fuel < 0 {
					return h + 7
				}
				a += 5
				fuel--
				if fuel < 0 {
					return h + 7
				}
				h = h*31 + u32(a&1023) + u32(b&255)*6 + 8581
			default:
				fuel--
				if fuel < 0 {
					return h + 7
				}
				c ^= a + 4
				fuel--
				if fuel < 0 {
					return h + 7
				}
				b = b*3 + a
				fuel--
				if fuel < 0 {
					return h + 7
				}
				h = h*31 + u32(a&1023) + u32(b&255)*6 + 6974
				fuel--
				if fuel < 0 {
					return h + 7
				}
				b = b*4 + a
			}
			fuel--
			if fuel < 0 {
				return h + 7
			}
			for i5 := 0; ; i5++ {
				if i5 > 1 {
					break
				}
				i0 = i32(i5)
				fuel--
				if fuel < 0 {
					return h + 7
				}
				a += 5
				fuel--
				if fuel < 0 {
					return h + 7
				}
				a += 6
				fuel--
				if fuel < 0 {
					return h + 7
				}
				h = h*31 + u32(a&1023) + u32(b&255)*5 + 5739
				fuel--
				if fuel < 0 {
					return h + 7
				}
				a += 5
			}
			fuel--
			if fuel < 0 {
				return h + 7
			}
			if b%6 > 1 || c&3 != 0 {
				fuel--
				if fuel < 0 {
					return h + 7
				}
				a += 4
			} else if c%7 <= 0 {
				fuel--
				if fuel < 0 {
					return h + 7
				}
				a += 2
				fuel--
				if fuel < 0 {
					return h + 7
				}
				c ^= a + 93
			} else {
				fuel--
				if fuel < 0 {
					return h + 7
				}
				b = b*3 + a
				fuel--
				if fuel < 0 {
					return h + 7
				}
				a += 6
				fuel--
				if fuel < 0 {
					return h + 7
				}
				b = b*4 + a
				fuel--
				if fuel < 0 {
					return h + 7
				}
				h = h*31 + u32(a&1023) + u32(b&255)*8 + 184
			}
			fuel--
			if fuel < 0 {
				return h + 7
			}
			a += 7
		} else if a%4 >= 0 {
			fuel--
			if fuel < 0 {
				return h + 7
			}
			for i6 := 0; i6 < 4; i6++ {
				i0 = i32(i6)
				fuel--
				if fuel < 0 {
					return h + 7
				}
				c ^= a + 16
			}
			fuel--
			if fuel < 0 {
				return h + 7
			}
			for i7 := 0; ; i7++ {
				if i7 > 3 {
					break
				}
				i0 = i32(i7)
				fuel--
				if fuel < 0 {
					return h + 7
				}
				a += 3
				fuel--
				if fuel < 0 {
					return h + 7
				}
				a += 5
			}
		} else {
			fuel--
			if fuel < 0 {
				return h + 7
			}
			if h%7 < 4 {
				break
			}
			fuel--
			if fuel < 0 {
				return h + 7
			}
			for i8 := range 4 {
				i0 = i32(i8)
				fuel--
				if fuel < 0 {
					return h + 7
				}
				c ^= a + 2
				fuel--
				if fuel < 0 {
					return h + 7
				}
				h = h*31 + u32(a&1023) + u32(b&255)*5 + 2524
				fuel--
				if fuel < 0 {
					return h + 7
				}
				b = b*5 + a
				fuel--
				if fuel < 0 {
					return h + 7
				}
				h = h*31 + u32(a&1023) + u32(b&255)*9 + 9761
			}
		}
		fuel--
		if fuel < 0 {
			return h + 7
		}
		a += 7
	case b%5 > 3 && c&6 != 0:
		fuel--
		if fuel < 0 {
			return h + 7
		}
		switch a%4 {
		case 1:
			fuel--
			if fuel < 0 {
				return h + 7
			}
			switch {
			case i0%6 > 3:
				fuel--
				if fuel < 0 {
					return h + 7
				}
				h = h*31 + u32(a&1023) + u32(b&255)*7 + 3951
				fuel--
				if fuel < 0 {
					return h + 7
				}
				c ^= a + 77
				fuel--
				if fuel < 0 {
					return h + 7
				}
				h = h*31 + u32(a&1023) + u32(b&255)*9 + 2682
			case a%7 < 4:
				fuel--
				if fuel < 0 {
					return h + 7
				}
				c ^= a + 44
				fuel--
				if fuel < 0 {
					return h + 7
				}
				c ^= a + 48
				fuel--
				if fuel < 0 {
					return h + 7
				}
				c ^= a + 43
			case h%3 >= 3:
				fuel--
				if fuel < 0 {
					return h + 7
				}
				a += 7
				fuel--
				if fuel < 0 {
					return h + 7
				}
				h = h*31 + u32(a&1023) + u32(b&255)*1 + 1690
			default:
				fuel--
				if fuel < 0 {
					return h + 7
				}
				a += 1
				fuel--
				if fuel < 0 {
					return h + 7
				}
				b = b*2 + a
			}
			fuel--
			if fuel < 0 {
				return h + 7
			}
			if i0%2 > 0 {
				fuel--
				if fuel < 0 {
					return h + 7
				}
				h = h*31 + u32(a&1023) + u32(b&255)*3 + 8769
				fuel--
				if fuel < 0 {
					return h + 7
				}
				c ^= a + 1
				fuel--
				if fuel < 0 {
					return h + 7
				}
				h = h*31 + u32(a&1023) + u32(b&255)*6 + 7368
			}
			fuel--
			if fuel < 0 {
				return h + 7
			}
			if h%4 < 4 {
				fuel--
				if fuel < 0 {
					return h + 7
				}
				h = h*31 + u32(a&1023) + u32(b&255)*6 + 7529
				fuel--
				if fuel < 0 {
					return h + 7
				}
				h = h*31 + u32(a&1023) + u32(b&255)*4 + 7612
			}
			fuel--
			if fuel < 0 {
				return h + 7
			}
			switch {
			case i0%7 != 4 || a&4 != 0:
				fuel--
				if fuel < 0 {
					return h + 7
				}
				b = b*3 + a
			default:
				fuel--
				if fuel < 0 {
					return h + 7
				}
				b = b*2 + a
				fuel--
				if fuel < 0 {
					return h + 7
				}
				h = h*31 + u32(a&1023) + u32(b&255)*8 + 5923
				fuel--
				if fuel < 0 {
					return h + 7
				}
				h = h*31 + u32(a&1023) + u32(b&255)*3 + 8442
			}
		case 4:
			fuel--
			if fuel < 0 {
				return h + 7
			}
			if b%7 < 1 {
				fuel--
				if fuel < 0 {
					return h + 7
				}
				b = b*2 + a
				fuel--
				if fuel < 0 {
					return h + 7
				}
				h = h*31 + u32(a&1023) + u32(b&255)*3 + 8438
				fuel--
				if fuel < 0 {
					return h + 7
				}
				a += 9
			} else {
				fuel--
				if fuel < 0 {
					return h + 7
				}
				b = b*4 + a
				fuel--
				if fuel < 0 {
					return h + 7
				}
				a += 7
			}
			fuel--
			if fuel < 0 {
				return h + 7
			}
			c ^= a + 92
			fuel--
			if fuel < 0 {
				return h + 7
			}
			a += 4
			fuel--
			if fuel < 0 {
				return h + 7
			}
			a += 7
		case 9:
			fuel--
			if fuel < 0 {
				return h + 7
			}
			switch b%3 {
			case 0:
				fuel--
				if fuel < 0 {
					return h + 7
				}
				a += 4
				fuel--
				if fuel < 0 {
					return h + 7
				}
				a += 3
				fuel--
				if fuel < 0 {
					return h + 7
				}
				h = h*31 + u32(a&1023) + u32(b&255)*5 + 8262
				fuel--
				if fuel < 0 {
					return h + 7
				}
				c ^= a + 97
			case 6:
				fuel--
				if fuel < 0 {
					return h + 7
				}
				c ^= a + 2
				fuel--
				if fuel < 0 {
					return h + 7
				}
				c ^= a + 6
				fuel--
				if fuel < 0 {
					return h + 7
				}
				h = h*31 + u32(a&1023) + u32(b&255)*6 + 8442
			case 5, 19:
				fuel--
				if fuel < 0 {
					return h + 7
				}
				a += 6
				fuel--
				if fuel < 0 {
					return h + 7
				}
				a += 4
				fuel--
				if fuel < 0 {
					return h + 7
				}
				h = h*31 + u32(a&1023) + u32(b&255)*9 + 4168
				fuel--
				if fuel < 0 {
					return h + 7
				}
				h = h*31 + u32(a&1023) + u32(b&255)*6 + 9287
			default:
				fuel--
				if fuel < 0 {
					return h + 7
				}
				c ^= a + 51
				fuel--
				if fuel < 0 {
					return h + 7
				}
				a += 7
			}
			fuel--
			if fuel < 0 {
				return h + 7
			}
			if b%2 != 1 {
				fuel--
				if fuel < 0 {
					return h + 7
				}
				c ^= a + 43
				fuel--
				if fuel < 0 {
					return h + 7
				}
				c ^= a + 58
			} else if a%7 >= 2 {
				fuel--
				if fuel < 0 {
					return h + 7
				}
				a += 1
			} else {
				fuel--
				if fuel < 0 {
					return h + 7
				}
				h = h*31 + u32(a&1023) + u32(b&255)*4 + 1071
				fuel--
				if fuel < 0 {
					return h + 7
				}
				h = h*31 + u32(a&1023) + u32(b&255)*2 + 7748
				fuel--
				if fuel < 0 {
					return h + 7
				}
				a += 1
				fuel--
				if fuel < 0 {
					return h + 7
				}
				c ^= a + 3
			}
			fuel--
			if fuel < 0 {
				return h + 7
			}
			for i9 := 0; i9 < 1; i9++ {
				i0 = i32(i9)
				fuel--
				if fuel < 0 {
					return h + 7
				}
				a += 5
				fuel--
				if fuel < 0 {
					return h + 7
				}
				a += 2
				fuel--
				if fuel < 0 {
					return h + 7
				}
				a += 6
				fuel--
				if fuel < 0 {
					return h + 7
				}
				a += 2
			}
			fuel--
			if fuel < 0 {
				return h + 7
			}
			a += 5
		default:
			fuel--
			if fuel < 0 {
				return h + 7
			}
			a += 9
			fuel--
			if fuel < 0 {
				return h + 7
			}
			if a%3 > 2 {
				break
			}
			fuel--
			if fuel < 0 {
				return h + 7
			}
			if i0%2 < 0 && c&6 != 0 {
				fuel--
				if fuel < 0 {
					return h + 7
				}
				c ^= a + 46
				fuel--
				if fuel < 0 {
					return h + 7
				}
				c ^= a + 33
				fuel--
				if fuel < 0 {
					return h + 7
				}
				c ^= a + 69
				fuel--
				if fuel < 0 {
					return h + 7
				}
				c ^= a + 26
			}
		}
		fuel--
		if fuel < 0 {
			return h + 7
		}
		if b%7 == 0 {
			fuel--
			if fuel < 0 {
				return h + 7
			}
			switch {
			case h%7 == 1 || c&1 != 0:
				fuel--
				if fuel < 0 {
					return h + 7
				}
				a += 4
				fuel--
				if fuel < 0 {
					return h + 7
				}
				b = b*2 + a
				fuel--
				if fuel < 0 {
					return h + 7
				}
				a += 3
				fuel--
				if fuel < 0 {
					return h + 7
				}
				a += 6
			case a%3 >= 2 || a&4 != 0:
				fuel--
				if fuel < 0 {
					return h + 7
				}
				h = h*31 + u32(a&1023) + u32(b&255)*3 + 8746
			}
			fuel--
			if fuel < 0 {
				return h + 7
			}
			a += 2
			fuel--
			if fuel < 0 {
				return h + 7
			}
			h = h*31 + u32(a&1023) + u32(b&255)*1 + 3951
		}
		fuel--
		if fuel < 0 {
			return h + 7
		}
		if a%3 > 2 {
			fuel--
			if fuel < 0 {
				return h + 7
			}
			for i10 := 0; i10 < 4; i10++ {
				i0 = i32(i10)
				fuel--
				if fuel < 0 {
					return h + 7
				}
				a += 7
				fuel--
				if fuel < 0 {
					return h + 7
				}
				c ^= a + 28
				fuel--
				if fuel < 0 {
					return h + 7
				}
				c ^= a + 80
			}
		}
	case b%2 == 1:
		fuel--
		if fuel < 0 {
			return h + 7
		}
		if h%5 == 4 {
			break
		}
		fuel--
		if fuel < 0 {
			return h + 7
		}
		if i0%5 < 1 {
			break
		}
	}
	fuel--
	if fuel < 0 {
		return h + 7
	}
	c ^= a + 2
	return h + u32(a&0xff) + u32(b&0xff)<<8 + u32(c&0xff)<<16
}

func main() {
	for a := i32(0); a < 4; a++ {
		for b := i32(0); b < 3; b++ {
			println(f(a, b, a*7+b))
		}
	}
}

