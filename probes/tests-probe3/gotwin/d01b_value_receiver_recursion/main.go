package main

type T struct {
	a i32
}

func (t *T) Inc(n i32)  i32 {
	t.a += n
	return t.a
}

func (t T) Get()  i32 {
	return t.a
}

func main() {
	var t T
	t.Inc(3)
	println(t.Get())
}

