package main

type F func()  F

func main() {
	var f F
	f = func()  F { return nil }
	println(f() == nil)
}

