package main

import "math"

func main() {
	var d0 f64 = 0.1
	_ = d0
	var s0 f32 = 16777216.0
	_ = s0
	var d1 f64 = 1.0
	_ = d1
	var s1 f32 = 1e-5
	_ = s1
	var d2 f64 = 123456.789
	_ = d2
	var s2 f32 = -1.5
	_ = s2
	var d3 f64 = 1.0
	_ = d3
	var s3 f32 = 1.0
	_ = s3
	var d4 f64 = 0.0
	_ = d4
	var s4 f32 = 1e-5
	_ = s4
	var d5 f64 = 2.5
	_ = d5
	var s5 f32 = 16777216.0
	_ = s5
	var i0 i32 = 0
	_ = i0
	var l0 i64 = 1
	_ = l0
	var b0 u8 = 200
	_ = b0
	var i1 i32 = -100
	_ = i1
	var l1 i64 = -4611686018427387904
	_ = l1
	var b1 u8 = 1
	_ = b1
	var i2 i32 = 1
	_ = i2
	var l2 i64 = -1
	_ = l2
	var b2 u8 = 1
	_ = b2
	println(0, f64(s2) == f64(f32(i2)))
	println(1, math.Float32bits(((f32(b1) + (f32(d4) - (s3 / s1))) - f32(d0))))
	println(2, math.Float32bits(((((s5 / s2) - f32(d2)) - (s1 * (-s1))) + ((f32(l2) * s2) * f32(f64(b2))))))
	println(3, math.Float64bits(d3))
	println(4, math.Float32bits(f32(l2)))
	println(5, math.Float64bits((f64(b0) / ((d1 - (d4 - d2)) + d4))))
	println(6, math.Float32bits(f32(l0)))
	println(7, math.Float64bits(((-(d0 * (d1 / d2))) - math.Abs(f64(l2)*f64((s0 / s1))+1))))
	println(8, math.Float64bits(f64(f32((-(d3 / d0))))))
	println(9, (((-s0) - (s3 / s3)) - (s4 * s3)) <= f32(i0))
	println(10, f32((d5 + math.Sqrt(d0*d2+1))) < (s2 + s4))
	println(11, math.Float32bits((((s4 * (s5 / s0)) - f32(l1)) + ((s3 * f32(i2)) - s2))))
	println(12, math.Float64bits(f64((f32(f64(s5)) + (-f32(l2))))))
	println(13, (((s5 * s1) / s1) - f32(i2)) == f32(i1))
	println(14, math.Float64bits(((-f64(s2)) + d4)))
	println(15, math.Float32bits((f32(i2) / f32(f64(f32(l2))))))
	println(16, ((f64(l2) / (d3 / d4)) + math.Abs((-d2)*(d0 - d4)+1)) < f64(b1))
	println(17, (((s1 + s2) - (s4 * s0)) - s0) <= s2)
	println(18, math.Float64bits(d5))
	println(19, math.Float32bits((s3 - f32((-(d4 / d1))))))
	println(20, (d2 / ((d0 / d0) * (d1 + d1))) < f64((f32(d1) / f32(d5))))
	println(21, math.Float32bits(s4))
	println(22, math.Float64bits(math.Abs(f64(f32((d4 * d3)))*(math.Abs((-d5)*d2+1) / (d5 + (d4 - d0)))+1)))
	println(23, math.Float64bits((-d2)))
	println(24, math.Float64bits(f64(((f32(i0) / (s1 * s2)) / (s3 + f32(l2))))))
	println(25, math.Float32bits((s0 / f32(l1))))
	println(26, (((s3 * s4) * (-s4)) * s1) > s1)
	println(27, math.Float32bits((s2 + f32(i0))))
	println(28, math.Float64bits(d2))
	println(29, ((-f32(b0)) - ((-s5) * (s1 + s0))) <= f32(i2))
	println(30, math.Float32bits(f32(d1)))
	println(31, math.Float64bits(((((d2 - d2) - math.Abs(d3*d2+1)) + (f64(i0) + d2)) * (d2 / d3))))
	println(32, math.Float32bits(s5))
	println(33, math.Float64bits(f64(b1)))
	println(34, math.Float64bits((((d4 - (d5 + d3)) / ((d4 * d1) / (d2 - d5))) * f64(((s4 + s4) - f32(i1))))))
	println(35, s5 > s1)
	println(36, math.Float64bits(d0))
	println(37, s0 > s1)
	println(38, math.Float32bits(f32(l0)))
	println(39, math.Float32bits(f32(d1)))
}

