package main

import "math/bits"

func main() {
	u64s := []u64{0, 1, 2, 3, 0x80, 0xff, 0x100, 0x8000, 0xffff, 0x10000, 0x7fffffff, 0x80000000, 0xffffffff, 0x100000000, 0x123456789abcdef0, 0x8000000000000000, 0xffffffffffffffff, 0xdeadbeefcafebabe}
	for _, v := range u64s {
		println(bits.LeadingZeros64(v), bits.LeadingZeros32(u32(v)), bits.LeadingZeros16(u16(v)), bits.LeadingZeros8(u8(v)), bits.TrailingZeros64(v), bits.TrailingZeros32(u32(v)), bits.TrailingZeros16(u16(v)), bits.TrailingZeros8(u8(v)))
		println(bits.OnesCount64(v), bits.OnesCount32(u32(v)), bits.OnesCount16(u16(v)), bits.OnesCount8(u8(v)), bits.Len64(v), bits.Len32(u32(v)), bits.Len16(u16(v)), bits.Len8(u8(v)))
		println(bits.Reverse64(v), bits.Reverse32(u32(v)), bits.Reverse16(u16(v)), bits.Reverse8(u8(v)), bits.ReverseBytes64(v), bits.ReverseBytes32(u32(v)), bits.ReverseBytes16(u16(v)))
		for _, k := range []int{0, 1, 7, 8, 13, 31, 32, 33, 63, 64, 65, -1, -8, -33, -64} {
			print(bits.RotateLeft64(v, k), " ", bits.RotateLeft32(u32(v), k), " ", bits.RotateLeft16(u16(v), k), " ", bits.RotateLeft8(u8(v), k), " ")
		}
		println()
		for _, w := range u64s {
			s, c := bits.Add64(v, w, 0)
			s1, c1 := bits.Add64(v, w, 1)
			d, b := bits.Sub64(v, w, 0)
			d1, b1 := bits.Sub64(v, w, 1)
			hi, lo := bits.Mul64(v, w)
			println(s, c, s1, c1, d, b, d1, b1, hi, lo)
			s32, c32 := bits.Add32(u32(v), u32(w), 1)
			d32, b32 := bits.Sub32(u32(v), u32(w), 1)
			hi32, lo32 := bits.Mul32(u32(v), u32(w))
			println(s32, c32, d32, b32, hi32, lo32)
		}
	}
	println(bits.UintSize, bits.LeadingZeros(1), bits.TrailingZeros(0), bits.OnesCount(255), bits.Len(255), bits.RotateLeft(1, -1), bits.Reverse(1), bits.ReverseBytes(1))
}

