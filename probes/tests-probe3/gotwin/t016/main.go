package main

// untyped constant shifts taking type from context; string/rune conversions
func main() {
	var s u32 = 7
	var a u8 = 1 << s
	var b u8 = 3 << s
	var c u16 = 1<<s + 1<<(s+8)
	var d i64 = 1 << (s + 30)
	var e = u8(1) << s
	f := i64(1) << (s * 9)
	println(a, b, c, d, e, f)
	println(i32(u8(1)<<s), u16(1)<<(s+8))
	var arr [1 << 3]i32
	println(len(arr), len([2 * 3]u8{}))
	x := 10
	println(1<<3 + x, x<<2, x>>1, -x>>1, -x/4, -x%4)
	// string conversions
	println(string(rune(97)), string(rune(0x4e16))+"!", len(string(rune(0x1F600))), len(string(rune(-5))))
	rs := []rune("a世\xff")
	println(len(rs), i64(rs[0]), i64(rs[1]))
	bs := []byte("a世")
	println(len(bs), bs[1], bs[3])
	println(string(bs[1:4]), string(rs[1:2]))
	var nb []byte
	println(string(nb) == "", len([]byte("")), len([]rune("")))
	for i := range "a世b" {
		print(i, " ")
	}
	println()
	for i, r := range []rune("a世b") {
		print(i, ":", i64(r), " ")
	}
	println()
	// byte/rune arithmetic
	var ch byte = 'a'
	ch -= 32
	println(ch, string(rune(ch)), 'a' < 'b', i64('世'-'a'))
	up := func(s string)  string {
		b := []byte(s)
		for i, c := range b {
			if c >= 'a' && c <= 'z' {
				b[i] = c - 32
			}
		}
		return string(b)
	}
	println(up("hello, World"))
	// string comparison with valid utf8, prefix
	println("abc" < "abd", "abc" < "abcd", "b" > "abc", "" < "a", "世" > "z", "Z" < "a", "abc" == "ab"+"c")
	// strings in switch/map with concatenated keys
	key := "ab"
	key += "c"
	m := map[string]i32{"abc": 1}
	println(m[key], m[key[:2]+"c"], m["ab"])
	// substr compare
	t := "hello world"
	println(t[6:] == "world", t[:5] == "hello", t[3:3] == "", t[4:5] == "o")
}

