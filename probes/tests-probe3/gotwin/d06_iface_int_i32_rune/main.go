package main

func main() {
	var a interface{} = int(1)
	var b interface{} = i32(1)
	var c interface{} = rune(1)
	println(a == b, b == c)
	_, ok1 := a.(i32)
	_, ok2 := b.(rune)
	println(ok1, ok2)
	switch a.(type) {
	case i32:
		println("i32")
	case int:
		println("int")
	}
}

