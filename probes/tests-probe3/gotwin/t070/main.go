package main

// complex numbers
func main() {
	var a complex128 = complex(1, 2)
	b := complex(3, -4)
	c := a + b
	d := a * b
	e := a / b
	f := a - b
	println(i32(real(c)), i32(imag(c)), i32(real(d)), i32(imag(d)), i32(real(f)), i32(imag(f)))
	println(i32(real(e)*1000), i32(imag(e)*1000))
	println(a == b, a != b, a == complex(1, 2))
	var g complex64 = complex(1.5, 2.5)
	g = g * g
	println(i32(real(g)*100), i32(imag(g)*100))
	h := 0 - a
	println(i32(real(h)), i32(imag(h)))
	const k = 2i * 2i
	println(i32(real(k)))
	var z complex128
	println(z == 0, real(z) == 0)
	arr := []complex128{a, b}
	arr[0] += 1
	println(i32(real(arr[0])))
	m := map[complex128]i32{a: 1}
	m[complex(1, 2)]++
	println(m[a], len(m))
}

