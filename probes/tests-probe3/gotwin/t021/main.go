package main

// arrays & slices
func sum(a [4]i32)  i32 {
	a[0] = 100
	return a[0] + a[1] + a[2] + a[3]
}

func show(s []i32) {
	print(len(s), cap(s), ":")
	for _, v := range s {
		print(" ", v)
	}
	println()
}

func main() {
	a := [4]i32{1, 2, 3, 4}
	b := a
	b[1] = 20
	println(a[1], b[1], sum(a), a[0], len(a))
	println(a == b, a == [4]i32{1, 2, 3, 4}, a != b)
	var z [3]string
	println(z[0] == "", len(z))
	c := [...]i32{5: 1, 2, 1: 7}
	println(len(c), c[0], c[1], c[5], c[6])

	var s []i32
	println(s == nil, len(s), cap(s))
	e := []i32{}
	println(e == nil, len(e), cap(e))
	for i := i32(0); i < 20; i++ {
		s = append(s, i)
	}
	println(len(s), s[0], s[19])
	t := s[2:5]
	show(t)
	println(cap(t) >= 3)
	t[0] = 99
	println(s[2])
	u := s[2:5:5]
	show(u)
	u = append(u, 1000)
	println(s[5], u[3])
	v := s[2:5:10]
	v = append(v, 2000)
	println(s[5], v[3], cap(v))
	// copy
	d := make([]i32, 5)
	n := copy(d, s)
	show(d)
	println(n)
	n = copy(d, s[18:])
	show(d)
	println(n)
	// overlapping copy
	o := []i32{1, 2, 3, 4, 5, 6}
	copy(o[2:], o)
	show(o)
	o = []i32{1, 2, 3, 4, 5, 6}
	copy(o, o[2:])
	show(o)
	// copy from string
	bb := make([]byte, 3)
	n = copy(bb, "hello")
	println(n, string(bb))
	// append slice and string
	bb = append(bb, "xyz"...)
	bb = append(bb, bb...)
	println(string(bb), len(bb))
	// append aliasing
	p := make([]i32, 3, 10)
	q := append(p, 1)
	r := append(p, 2)
	println(q[3], r[3])
	// nil append
	var ns []i32
	ns = append(ns)
	println(ns == nil)
	ns = append(ns, []i32{}...)
	println(ns == nil)
	// slices of slices
	ss := [][]i32{{1}, {2, 3}, nil}
	println(len(ss), len(ss[1]), ss[2] == nil)
	ss[0] = append(ss[0], 5)
	println(ss[0][1])
	// array pointer slicing / range
	pa := &a
	sl := pa[1:3]
	sl[0] = 77
	println(a[1], len(pa))
	for i, x := range pa {
		print(i, x, ";")
	}
	println()
	// make with len, cap
	m := make([]string, 2, 5)
	println(len(m), cap(m), m[1] == "")
	m2 := m[1:4]
	println(len(m2), cap(m2))
	// slicing a full slice expression from array
	arr := [5]i32{1, 2, 3, 4, 5}
	x := arr[1:2:3]
	println(len(x), cap(x))
	x = append(x, 42)
	println(arr[2])
	x = append(x, 43)
	println(arr[3])
	// multi-dim array
	var g [3][2]i32
	g[1][1] = 5
	h := g
	h[1][1] = 6
	println(g[1][1], h[1][1], g == h)
	// range copy semantics
	ra := [3]i32{1, 2, 3}
	for i, v := range ra {
		ra[2] = 10
		if i == 2 {
			println(v)
		}
	}
	rs := []i32{1, 2, 3}
	for i, v := range rs {
		rs[2] = 10
		if i == 2 {
			println(v)
		}
	}
	for i := range rs {
		rs = append(rs, 1)
		_ = i
	}
	println(len(rs))
}

