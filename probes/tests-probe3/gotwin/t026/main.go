package main

func main() {
	s := []i32{1, 2, 3}
	i := 5
	println("before")
	t := s[1:i]
	println("after", len(t))
}

