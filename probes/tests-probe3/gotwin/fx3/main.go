package main

import "math"

func main() {
	var d0 f64 = 0.1
	_ = d0
	var s0 f32 = -7.125
	_ = s0
	var d1 f64 = -1.0
	_ = d1
	var s1 f32 = 3.4e10
	_ = s1
	var d2 f64 = 1e300
	_ = d2
	var s2 f32 = 2.5
	_ = s2
	var d3 f64 = 1e-300
	_ = d3
	var s3 f32 = 1.0
	_ = s3
	var d4 f64 = 1e300
	_ = d4
	var s4 f32 = 0.0
	_ = s4
	var d5 f64 = -0.0000001
	_ = d5
	var s5 f32 = 2.5
	_ = s5
	var i0 i32 = -100
	_ = i0
	var l0 i64 = -9007199254740993
	_ = l0
	var b0 u8 = 1
	_ = b0
	var i1 i32 = 7
	_ = i1
	var l1 i64 = 1099511627776
	_ = l1
	var b1 u8 = 255
	_ = b1
	var i2 i32 = 16777217
	_ = i2
	var l2 i64 = 9007199254740993
	_ = l2
	var b2 u8 = 1
	_ = b2
	println(0, math.Float64bits(((-d4) + ((math.Abs(d3*d5+1) / (d2 + d0)) - (f64(s2) / (d2 / d4))))))
	println(1, f64(l2) >= (-((d5 - d5) * (d5 / d0))))
	println(2, (f32((d4 + d3)) * f32(l2)) <= (s4 + f32(l2)))
	println(3, math.Float32bits(s2))
	println(4, math.Float32bits(s3))
	println(5, math.Float32bits((-(f32(b1) / f32((d2 * d4))))))
	println(6, math.Float32bits((s4 - s5)))
	println(7, math.Float32bits((f32(d0) + (((s2 * s4) * (s0 - s2)) - ((-s5) + s2)))))
	println(8, math.Float32bits(f32((((d0 + d4) - f64(s4)) - ((d4 * d4) - (d2 / d2))))))
	println(9, math.Float32bits(((f32((d4 - d0)) / (-(s2 - s0))) * s1)))
	println(10, math.Float64bits((d3 + d5)))
	println(11, math.Float64bits((-((-(d4 / d0)) * ((d1 * d1) + (d3 + d2))))))
	println(12, math.Float64bits((f64(s0) - d0)))
	println(13, math.Float64bits(d5))
	println(14, math.Float64bits((d3 / (d2 / d4))))
	println(15, math.Float64bits((d2 / f64(f32((d2 / d5))))))
	println(16, math.Float32bits(((((s0 * s2) * s5) + f32((d3 + d5))) * ((s3 + (s5 / s1)) + f32(i0)))))
	println(17, (((s5 - s0) + (s2 - s0)) - (-f32(d3))) == ((s4 - (s5 - s3)) / s3))
	println(18, math.Float64bits((f64(b2) - d1)))
	println(19, math.Float64bits((f64(l2) / (math.Abs(d3*(d4 * d1)+1) * math.Abs((d4 - d3)*math.Sqrt(d3*d5+1)+1)))))
	println(20, f64(((s5 + s1) * (s2 - s1))) > math.Abs(d0*((d0 * d2) + (d5 * d0))+1))
	println(21, math.Float64bits(((((d2 + d5) / d4) * d5) * ((-f64(l0)) * (d3 * d2)))))
	println(22, math.Float64bits((math.Abs(d4*d2+1) / (-(d0 + f64(s4))))))
	println(23, math.Float32bits(((((s2 / s3) + f32(d0)) - (s5 + s1)) / ((f32(i2) - (s2 * s2)) + (f32(d2) * f32(b2))))))
	println(24, (s5 + s5) <= (((s4 / s0) * f32(i1)) + ((s0 / s4) + (s2 - s0))))
	println(25, math.Float64bits((f64(i1) - (d0 - ((d3 - d5) / (d5 / d3))))))
	println(26, math.Float64bits(d2))
	println(27, (f32(i1) * s3) > s1)
	println(28, math.Float64bits((d0 - (((d5 + d1) / d3) + math.Sqrt(d3*d2+1)))))
	println(29, math.Float64bits(d0))
	println(30, math.Float32bits(((((-s2) * s5) / (s0 + s4)) + ((f32(d2) / f32(i1)) * (-f32(i1))))))
	println(31, math.Float64bits(((math.Abs((d1 * d3)*(d5 / d2)+1) * (math.Abs(d3*d0+1) - d0)) / d5)))
	println(32, math.Float64bits(f64(s4)))
	println(33, math.Float64bits(f64((s3 + (f32(d1) - f32(b0))))))
	println(34, math.Float64bits(((math.Abs((d1 / d1)*(d0 + d0)+1) - (d3 - (-d0))) / math.Abs((-(d4 / d3))*(f64(s0) * (d0 * d3))+1))))
	println(35, math.Float64bits(((((d1 - d5) / (d3 * d1)) / f64(f32(i1))) + d0)))
	println(36, math.Float64bits(((((d5 - d5) * d3) * ((d5 * d3) * (d3 / d4))) - math.Abs(d2*f64((s4 + s0))+1))))
	println(37, math.Float64bits(d0))
	println(38, d3 == f64((s0 * (s0 + s3))))
	println(39, math.Float32bits(((s0 - f32((d3 * d4))) - (s5 + f32(l2)))))
}

