package main

// multiple returns, methods w/ ptr receivers, recursion, named types
type Stack struct {
	data []i32
}

func (s *Stack) Push(v i32) { s.data = append(s.data, v) }
func (s *Stack) Pop()  (i32, bool) {
	if len(s.data) == 0 {
		return 0, false
	}
	v := s.data[len(s.data)-1]
	s.data = s.data[:len(s.data)-1]
	return v, true
}

type IntList []i32

func (l *IntList) Sum()  i32 {
	var t i32
	for _, v := range *l {
		t += v
	}
	return t
}

type Celsius f64
type MyStr string

func (m *MyStr) Len()  int { return len(*m) }

func divmod(a, b i32)  (q, r i32) {
	q = a / b
	r = a % b
	return
}

func three()  (i32, string, f64) { return 1, "two", 3.0 }

func pass(a i32, s string, f f64)  string {
	if a == 1 && f == 3.0 {
		return s
	}
	return "bad"
}

func swap(a, b string)  (string, string) { return b, a }

func ack(m, n i32)  i32 {
	if m == 0 {
		return n + 1
	}
	if n == 0 {
		return ack(m-1, 1)
	}
	return ack(m-1, ack(m, n-1))
}

type Node struct {
	val i32
	next *Node
}

func (n *Node) Len()  i32 {
	if n == nil {
		return 0
	}
	return 1 + n.next.Len()
}

type Tree struct {
	l, r *Tree
	v i32
}

func (t *Tree) Insert(v i32)  *Tree {
	if t == nil {
		return &Tree{v: v}
	}
	if v < t.v {
		t.l = t.l.Insert(v)
	} else {
		t.r = t.r.Insert(v)
	}
	return t
}

func (t *Tree) Walk(f func(i32)) {
	if t == nil {
		return
	}
	t.l.Walk(f)
	f(t.v)
	t.r.Walk(f)
}

func main() {
	s := &Stack{}
	s.Push(1)
	s.Push(2)
	v, ok := s.Pop()
	println(v, ok)
	s.Pop()
	v, ok = s.Pop()
	println(v, ok)
	var st Stack
	st.Push(5)
	println(len(st.data))
	l := IntList{1, 2, 3}
	println(l.Sum(), len(l))
	l = append(l, 4)
	println(l.Sum())
	c := Celsius(36.6)
	println(i32(c*10), i32(f64(c)+0.5))
	ms := MyStr("hello")
	println(ms.Len(), string(ms)+"!", ms == "hello", ms[1])
	q, r := divmod(17, 5)
	println(q, r)
	println(pass(three()))
	a, b := swap("x", "y")
	println(a, b)
	_, second, _ := three()
	println(second)
	println(ack(2, 3))
	var head *Node
	for i := i32(0); i < 5; i++ {
		head = &Node{i, head}
	}
	println(head.Len(), head.val, head.next.next.val)
	var root *Tree
	for _, v := range []i32{5, 3, 8, 1, 4, 9, 7} {
		root = root.Insert(v)
	}
	root.Walk(func(v i32) { print(v, " ") })
	println()
	// func returning struct and array
	p := mkpair()
	println(p.a, p.b[1])
	arr := mkarr()
	println(arr[2])
	println(mkarr()[1], mkpair().b[0])
	// multi-assign from map/type assertion/ range
	m := map[string][2]i32{"k": {1, 2}}
	e, ok2 := m["k"]
	println(e[1], ok2)
}

type Pair struct {
	a string
	b [2]i32
}

func mkpair()  Pair { return Pair{"p", [2]i32{7, 8}} }
func mkarr()  [3]i64 { return [3]i64{1, 2, 3} }

