package main

// defer
func order() {
	for i := 0; i < 3; i++ {
		defer println("defer", i)
	}
	println("body")
}

func argsEval() {
	x := 1
	defer println("deferred x =", x)
	x = 2
	defer func() { println("closure x =", x) }()
	x = 3
}

func named()  (r i32) {
	defer func() { r *= 2 }()
	r = 5
	return r + 1
}

func named2()  (a i32, b string) {
	defer func() {
		a += 100
		b += "!"
	}()
	return 1, "x"
}

func unnamed()  i32 {
	r := i32(1)
	defer func() { r = 100 }()
	return r
}

type T struct {
	v i32
}

func (t *T) Show(tag string) { println(tag, t.v) }

func methodDefer() {
	t := &T{1}
	defer t.Show("m1")
	t.v = 2
	t = &T{3}
	defer t.Show("m2")
}

func condDefer(n i32) {
	if n > 0 {
		defer println("cond", n)
	}
	for i := i32(0); i < n; i++ {
		defer func(k i32) { println("loop", k) }(i)
	}
	println("end", n)
}

func nested()  (s string) {
	defer func() {
		defer func() { s += "c" }()
		s += "b"
	}()
	s = "a"
	return
}

func earlyReturn(n i32)  (r i32) {
	defer func() { r += 1000 }()
	if n == 0 {
		return 1
	}
	defer func() { r += 10000 }()
	if n == 1 {
		return 2
	}
	return 3
}

func deferModifiesAfterReturnExpr()  (r i32) {
	x := i32(5)
	defer func() { x = 50; _ = x }()
	return x
}

func main() {
	order()
	argsEval()
	println(named())
	a, b := named2()
	println(a, b)
	println(unnamed())
	methodDefer()
	condDefer(0)
	condDefer(2)
	println(nested())
	println(earlyReturn(0), earlyReturn(1), earlyReturn(2))
	println(deferModifiesAfterReturnExpr())
}

