package main

func f(a, b, c i32)  u32 {
	var h u32 = 17
	var i0 i32
	fuel := 3000
	_ = i0
	fuel--
	if fuel < 0 {
		return h + 7
	}
	for i1 := 0; i1 < 5; i1++ {
		i0 = i32(i1)
		fuel--
		if fuel < 0 {
			return h + 7
		}
		h = h*31 + u32(a&1023) + u32(b&255)*3 + 2417
		fuel--
		if fuel < 0 {
			return h + 7
		}
		b = b*3 + a
		fuel--
		if fuel < 0 {
			return h + 7
		}
		switch {
		case i0%7 >= 4:
			fuel--
			if fuel < 0 {
				return h + 7
			}
			if h%4 == 3 {
				break
			}
			fuel--
			if fuel < 0 {
				return h + 7
			}
			h = h*31 + u32(a&1023) + u32(b&255)*3 + 6429
			fuel--
			if fuel < 0 {
				return h + 7
			}
			if h%6 <= 2 {
				continue
			}
		case h%6 >= 0:
			fuel--
			if fuel < 0 {
				return h + 7
			}
			for i2 := 0; ; i2++ {
				if i2 > 4 {
					break
				}
				i0 = i32(i2)
				fuel--
				if fuel < 0 {
					return h + 7
				}
				h = h*31 + u32(a&1023) + u32(b&255)*1 + 8976
				fuel--
				if fuel < 0 {
					return h + 7
				}
				a += 3
				fuel--
				if fuel < 0 {
					return h + 7
				}
				h = h*31 + u32(a&1023) + u32(b&255)*8 + 9565
				fuel--
				if fuel < 0 {
					return h + 7
				}
				a += 1
			}
			fuel--
			if fuel < 0 {
				return h + 7
			}
			c ^= a + 45
			fuel--
			if fuel < 0 {
				return h + 7
			}
			for i3 := range 3 {
				i0 = i32(i3)
				fuel--
				if fuel < 0 {
					return h + 7
				}
				h = h*31 + u32(a&1023) + u32(b&255)*2 + 1779
				fuel--
				if fuel < 0 {
					return h + 7
				}
				a += 6
				fuel--
				if fuel < 0 {
					return h + 7
				}
				h = h*31 + u32(a&1023) + u32(b&255)*5 + 3580
				fuel--
				if fuel < 0 {
					return h + 7
				}
				a += 6
			}
		default:
			fuel--
			if fuel < 0 {
				return h + 7
			}
			if c%5 == 0 {
				return h
			}
			fuel--
			if fuel < 0 {
				return h + 7
			}
			for i4 := 0; ; i4++ {
				if i4 > 2 {
					break
				}
				i0 = i32(i4)
				fuel--
				if fuel < 0 {
					return h + 7
				}
				c ^= a + 6
				fuel--
				if fuel < 0 {
					return h + 7
				}
				b = b*4 + a
			}
		}
	}
	fuel--
	if fuel < 0 {
		return h + 7
	}
	switch (a+c)%5 {
	case 2, 15:
		fuel--
		if fuel < 0 {
			return h + 7
		}
		if a%4 > 4 {
			fuel--
			if fuel < 0 {
				return h + 7
			}
			c ^= a + 27
			fuel--
			if fuel < 0 {
				return h + 7
			}
			if a%6 >= 3 && c&6 != 0 {
				break
			}
			fuel--
			if fuel < 0 {
				return h + 7
			}
			switch {
			case i0%3 >= 2:
				fuel--
				if fuel < 0 {
					return h + 7
				}
				a += 8
			case b%2 > 4:
				fuel--
				if fuel < 0 {
					return h + 7
				}
				h = h*31 + u32(a&1023) + u32(b&255)*1 + 6824
				fuel--
				if fuel < 0 {
					return h + 7
				}
				b = b*5 + a
				fuel--
				if fuel < 0 {
					return h + 7
				}
				h = h*31 + u32(a&1023) + u32(b&255)*1 + 5777
			}
		}
		fuel--
		if fuel < 0 {
			return h + 7
		}
		for i5 := range 1 {
			i0 = i32(i5)
			fuel--
			if fuel < 0 {
				return h + 7
			}
			for i6 := range 1 {
				i0 = i32(i6)
				fuel--
				if fuel < 0 {
					return h + 7
				}
				b = b*4 + a
			}
			fuel--
			if fuel < 0 {
				return h + 7
			}
			b = b*2 + a
		}
		fuel--
		if fuel < 0 {
			return h + 7
		}
		if b%7 >= 0 || b&3 != 0 {
			fuel--
			if fuel < 0 {
				return h + 7
			}
			if b%6 != 0 {
				break
			}
		} else {
			fuel--
			if fuel < 0 {
				return h + 7
			}
			c ^= a + 31
			fuel--
			if fuel < 0 {
				return h + 7
			}
			h = h*31 + u32(a&1023) + u32(b&255)*7 + 6232
			fuel--
			if fuel < 0 {
				return h + 7
			}
			if i0%7 == 0 {
				fuel--
				if fuel < 0 {
					return h + 7
				}
				h = h*31 + u32(a&1023) + u32(b&255)*2 + 7839
				fuel--
				if fuel < 0 {
					return h + 7
				}
				b = b*5 + a
				fuel--
				if fuel < 0 {
					return h + 7
				}
				h = h*31 + u32(a&1023) + u32(b&255)*8 + 3042
			} else {
				fuel--
				if fuel < 0 {
					return h + 7
				}
				h = h*31 + u32(a&1023) + u32(b&255)*5 + 3768
			}
		}
		fuel--
		if fuel < 0 {
			return h + 7
		}
		if h%6 <= 3 || a&1 != 0 {
			fuel--
			if fuel < 0 {
				return h + 7
			}
			if a%5 < 2 {
				break
			}
		} else if a%7 <= 1 {
			fuel--
			if fuel < 0 {
				return h + 7
			}
			for i7 := 0; ; i7++ {
				if i7 > 3 {
					break
				}
				i0 = i32(i7)
				fuel--
				if fuel < 0 {
					return h + 7
				}
				h = h*31 + u32(a&1023) + u32(b&255)*3 + 6227
				fuel--
				if fuel < 0 {
					return h + 7
				}
				b = b*4 + a
				fuel--
				if fuel < 0 {
					return h + 7
				}
				h = h*31 + u32(a&1023) + u32(b&255)*6 + 4806
			}
			fuel--
			if fuel < 0 {
				return h + 7
			}
			for i8 := 0; i8 < 4; i8++ {
				i0 = i32(i8)
				fuel--
				if fuel < 0 {
					return h + 7
				}
				a += 3
				fuel--
				if fuel < 0 {
					return h + 7
				}
				b = b*2 + a
				fuel--
				if fuel < 0 {
					return h + 7
				}
				h = h*31 + u32(a&1023) + u32(b&255)*7 + 2981
				fuel--
				if fuel < 0 {
					return h + 7
				}
				b = b*5 + a
			}
		} else {
			fuel--
			if fuel < 0 {
				return h + 7
			}
			switch a%4 {
			case 1:
				fuel--
				if fuel < 0 {
					return h + 7
				}
				c ^= a + 65
				fuel--
				if fuel < 0 {
					return h + 7
				}
				c ^= a + 47
			case 4:
				fuel--
				if fuel < 0 {
					return h + 7
				}
				c ^= a + 5
			case 3:
				fuel--
				if fuel < 0 {
					return h + 7
				}
				c ^= a + 64
				fuel--
				if fuel < 0 {
					return h + 7
				}
				h = h*31 + u32(a&1023) + u32(b&255)*7 + 9012
				fuel--
				if fuel < 0 {
					return h + 7
				}
				c ^= a + 81
				fuel--
				if fuel < 0 {
					return h + 7
				}
				h = h*31 + u32(a&1023) + u32(b&255)*9 + 3630
			default:
				fuel--
				if fuel < 0 {
					return h + 7
				}
				a += 4
				fuel--
				if fuel < 0 {
					return h + 7
				}
				b = b*3 + a
			}
			fuel--
			if fuel < 0 {
				return h + 7
			}
			if b%6 > 2 {
				fuel--
				if fuel < 0 {
					return h + 7
				}
				a += 7
				fuel--
				if fuel < 0 {
					return h + 7
				}
				h = h*31 + u32(a&1023) + u32(b&255)*1 + 8112
				fuel--
				if fuel < 0 {
					return h + 7
				}
				a += 2
			}
		}
	case 0, 20:
		fuel--
		if fuel < 0 {
			return h + 7
		}
		switch b%3 {
		case 2:
			fuel--
			if fuel < 0 {
				return h + 7
			}
			for i9 := 0; i9 < 5; i9++ {
				i0 = i32(i9)
				fuel--
				if fuel < 0 {
					return h + 7
				}
				h = h*31 + u32(a&1023) + u32(b&255)*2 + 8246
				fuel--
				if fuel < 0 {
					return h + 7
				}
				b = b*3 + a
			}
			fuel--
			if fuel < 0 {
				return h + 7
			}
			if b%3 != 4 {
				break
			}
			fuel--
			if fuel < 0 {
				return h + 7
			}
			switch b%3 {
			case 2:
				fuel--
				if fuel < 0 {
					return h + 7
				}
				c ^= a + 88
				fuel--
				if fuel < 0 {
					return h + 7
				}
				c ^= a + 29
			default:
				fuel--
				if fuel < 0 {
					return h + 7
				}
				b = b*4 + a
				fuel--
				if fuel < 0 {
					return h + 7
				}
				h = h*31 + u32(a&1023) + u32(b&255)*5 + 8820
			}
			fuel--
			if fuel < 0 {
				return h + 7
			}
			for i10 := 0; ; i10++ {
				if i10 > 2 {
					break
				}
				i0 = i32(i10)
				fuel--
				if fuel < 0 {
					return h + 7
				}
				h = h*31 + u32(a&1023) + u32(b&255)*5 + 3635
				fuel--
				if fuel < 0 {
					return h + 7
				}
				b = b*3 + a
			}
		case 1:
			fuel--
			if fuel < 0 {
				return h + 7
			}
			switch (a+c)%5 {
			case 2:
				fuel--
				if fuel < 0 {
					return h + 7
				}
				c ^= a + 10
			case 3, 19:
				fuel--
				if fuel < 0 {
					return h + 7
				}
				c ^= a + 43
				fuel--
				if fuel < 0 {
					return h + 7
				}
				c ^= a + 76
				fuel--
				if fuel < 0 {
					return h + 7
				}
				c ^= a + 37
				fuel--
				if fuel < 0 {
					return h + 7
				}
				c ^= a + 43
			}
			fuel--
			if fuel < 0 {
				return h + 7
			}
			if b%6 == 0 {
				fuel--
				if fuel < 0 {
					return h + 7
				}
				h = h*31 + u32(a&1023) + u32(b&255)*7 + 1475
				fuel--
				if fuel < 0 {
					return h + 7
				}
				h = h*31 + u32(a&1023) + u32(b&255)*5 + 6161
			} else if h%2 != 1 {
				fuel--
				if fuel < 0 {
					return h + 7
				}
				h = h*31 + u32(a&1023) + u32(b&255)*2 + 1804
				fuel--
				if fuel < 0 {
					return h + 7
				}
				h = h*31 + u32(a&1023) + u32(b&255)*7 + 3051
				fuel--
				if fuel < 0 {
					return h + 7
				}
				h = h*31 + u32(a&1023) + u32(b&255)*8 + 9681
			} else {
				fuel--
				if fuel < 0 {
					return h + 7
				}
				c ^= a + 58
				fuel--
				if fuel < 0 {
					return h + 7
				}
				h = h*31 + u32(a&1023) + u32(b&255)*4 + 5456
			}
			fuel--
			if fuel < 0 {
				return h + 7
			}
			switch {
			case a%4 < 2:
				fuel--
				if fuel < 0 {
					return h + 7
				}
				h = h*31 + u32(a&1023) + u32(b&255)*6 + 2859
				fuel--
				if fuel < 0 {
					return h + 7
				}
				h = h*31 + u32(a&1023) + u32(b&255)*4 + 5890
				fuel--
				if fuel < 0 {
					return h + 7
				}
				a += 7
			default:
				fuel--
				if fuel < 0 {
					return h + 7
				}
				h = h*31 + u32(a&1023) + u32(b&255)*3 + 5236
				fuel--
				if fuel < 0 {
					return h + 7
				}
				c ^= a + 22
			}
			fuel--
			if fuel < 0 {
				return h + 7
			}
			if i0%4 <= 3 {
				break
			}
		case 3, 11:
			fuel--
			if fuel < 0 {
				return h + 7
			}
			switch a%4 {
			case 4, 14:
				fuel--
				if fuel < 0 {
					return h + 7
				}
				a += 5
				fuel--
				if fuel < 0 {
					return h + 7
				}
				b = b*4 + a
			case 0:
				fuel--
				if fuel < 0 {
					return h + 7
				}
				b = b*2 + a
				fuel--
				if fuel < 0 {
					return h + 7
				}
				c ^= a + 83
				fuel--
				if fuel < 0 {
					return h + 7
				}
				c ^= a + 14
				fuel--
				if fuel < 0 {
					return h + 7
				}
				c ^= a + 43
			default:
				fuel--
				if fuel < 0 {
					return h + 7
				}
				a += 6
				fuel--
				if fuel < 0 {
					return h + 7
				}
				c ^= a + 4
				fuel--
				if fuel < 0 {
					return h + 7
				}
				c ^= a + 36
			}
			fuel--
			if fuel < 0 {
				return h + 7
			}
			if h%4 >= 2 {
				fuel--
				if fuel < 0 {
					return h + 7
				}
				h = h*31 + u32(a&1023) + u32(b&255)*8 + 7964
				fuel--
				if fuel < 0 {
					return h + 7
				}
				b = b*3 + a
			} else if b%2 > 0 {
				fuel--
				if fuel < 0 {
					return h + 7
				}
				c ^= a + 39
				fuel--
				if fuel < 0 {
					return h + 7
				}
				h = h*31 + u32(a&1023) + u32(b&255)*4 + 5888
				fuel--
				if fuel < 0 {
					return h + 7
				}
				b = b*5 + a
				fuel--
				if fuel < 0 {
					return h + 7
				}
				b = b*4 + a
			} else {
				fuel--
				if fuel < 0 {
					return h + 7
				}
				b = b*5 + a
				fuel--
				if fuel < 0 {
					return h + 7
				}
				a += 1
				fuel--
				if fuel < 0 {
					return h + 7
				}
				c ^= a + 98
				fuel--
				if fuel < 0 {
					return h + 7
				}
				b = b*5 + a
			}
		default:
			fuel--
			if fuel < 0 {
				return h + 7
			}
			a += 3
		}
		fuel--
		if fuel < 0 {
			return h + 7
		}
		for i11 := range 1 {
			i0 = i32(i11)
			fuel--
			if fuel < 0 {
				return h + 7
			}
			h = h*31 + u32(a&1023) + u32(b&255)*2 + 827
			fuel--
			if fuel < 0 {
				return h + 7
			}
			for i12 := 0; ; i12++ {
				if i12 > 3 {
					break
				}
				i0 = i32(i12)
				fuel--
				if fuel < 0 {
					return h + 7
				}
				h = h*31 + u32(a&1023) + u32(b&255)*9 + 8970
				fuel--
				if fuel < 0 {
					return h + 7
				}
				a += 4
			}
		}
		fuel--
		if fuel < 0 {
			return h + 7
		}
		h = h*31 + u32(a&1023) + u32(b&255)*8 + 4631
	default:
		fuel--
		if fuel < 0 {
			return h + 7
		}
		switch {
		case i0%3 > 3 || b&3 != 0:
			fuel--
			if fuel < 0 {
				return h + 7
			}
			for i13 := 0; ; i13++ {
				if i13 > 2 {
					break
				}
				i0 = i32(i13)
				fuel--
				if fuel < 0 {
					return h + 7
				}
				b = b*3 + a
			}
		case c%4 == 4:
			fuel--
			if fuel < 0 {
				return h + 7
			}
			if i0%5 > 2 || b&3 != 0 {
				fuel--
				if fuel < 0 {
					return h + 7
				}
				h = h*31 + u32(a&1023) + u32(b&255)*4 + 3731
				fuel--
				if fuel < 0 {
					return h + 7
				}
				h = h*31 + u32(a&1023) + u32(b&255)*3 + 7598
				fuel--
				if fuel < 0 {
					return h + 7
				}
				h = h*31 + u32(a&1023) + u32(b&255)*9 + 8099
				fuel--
				if fuel < 0 {
					return h + 7
				}
				a += 4
			}
			fuel--
			if fuel < 0 {
				return h + 7
			}
			if c%5 <= 2 {
				fuel--
				if fuel < 0 {
					return h + 7
				}
				a += 7
				fuel--
				if fuel < 0 {
					return h + 7
				}
				a += 4
				fuel--
				if fuel < 0 {
					return h + 7
				}
				b = b*3 + a
			} else {
				fuel--
				if fuel < 0 {
					return h + 7
				}
				a += 4
			}
			fuel--
			if fuel < 0 {
				return h + 7
			}
			if b%3 < 3 || a&2 != 0 {
				break
			}
		default:
			fuel--
			if fuel < 0 {
				return h + 7
			}
			h = h*31 + u32(a&1023) + u32(b&255)*2 + 3329
			fuel--
			if fuel < 0 {
				return h + 7
			}
			if a%7 >= 1 {
				return h
			}
			fuel--
			if fuel < 0 {
				return h + 7
			}
			for i14 := range 1 {
				i0 = i32(i14)
				fuel--
				if fuel < 0 {
					return h + 7
				}
				h = h*31 + u32(a&1023) + u32(b&255)*4 + 3550
				fuel--
				if fuel < 0 {
					return h + 7
				}
				a += 1
				fuel--
				if fuel < 0 {
					return h + 7
				}
				c ^= a + 48
				fuel--
				if fuel < 0 {
					return h + 7
				}
				h = h*31 + u32(a&1023) + u32(b&255)*2 + 5250
			}
		}
		fuel--
		if fuel < 0 {
			return h + 7
		}
		for i15 := 0; i15 < 4; i15++ {
			i0 = i32(i15)
			fuel--
			if fuel < 0 {
				return h + 7
			}
			c ^= a + 1
			fuel--
			if fuel < 0 {
				return h + 7
			}
			a += 8
			fuel--
			if fuel < 0 {
				return h + 7
			}
			for i16 := range 3 {
				i0 = i32(i16)
				fuel--
				if fuel < 0 {
					return h + 7
				}
				b = b*5 + a
				fuel--
				if fuel < 0 {
					return h + 7
				}
				c ^= a + 1
				fuel--
				if fuel < 0 {
					return h + 7
				}
				b = b*3 + a
				fuel--
				if fuel < 0 {
					return h + 7
				}
				b = b*5 + a
			}
			fuel--
			if fuel < 0 {
				return h + 7
			}
			if h%7 != 3 {
				fuel--
				if fuel < 0 {
					return h + 7
				}
				h = h*31 + u32(a&1023) + u32(b&255)*4 + 8974
				fuel--
				if fuel < 0 {
					return h + 7
				}
				h = h*31 + u32(a&1023) + u32(b&255)*6 + 3231
			} else {
				fuel--
				if fuel < 0 {
					return h + 7
				}
				c ^= a + 12
				fuel--
				if fuel < 0 {
					return h + 7
				}
				h = h*31 + u32(a&1023) + u32(b&255)*7 + 8513
				fuel--
				if fuel < 0 {
					return h + 7
				}
				c ^= a + 25
				fuel--
				if fuel < 0 {
					return h + 7
				}
				a += 5
			}
		}
		fuel--
		if fuel < 0 {
			return h + 7
		}
		for i17 := 0; i17 < 3; i17++ {
			i0 = i32(i17)
			fuel--
			if fuel < 0 {
				return h + 7
			}
			b = b*5 + a
		}
	}
	fuel--
	if fuel < 0 {
		return h + 7
	}
	for i18 := range 1 {
		i0 = i32(i18)
		fuel--
		if fuel < 0 {
			return h + 7
		}
		for i19 := 0; i19 < 2; i19++ {
			i0 = i32(i19)
			fuel--
			if fuel < 0 {
				return h + 7
			}
			if h%3 == 4 {
				break
			}
			fuel--
			if fuel < 0 {
				return h + 7
			}
			for i20 := 0; i20 < 2; i20++ {
				i0 = i32(i20)
				fuel--
				if fuel < 0 {
					return h + 7
				}
				b = b*4 + a
				fuel--
				if fuel < 0 {
					return h + 7
				}
				a += 4
				fuel--
				if fuel < 0 {
					return h + 7
				}
				a += 7
			}
		}
		fuel--
		if fuel < 0 {
			return h + 7
		}
		if h%2 == 2 && a&7 != 0 {
			fuel--
			if fuel < 0 {
				return h + 7
			}
			if i0%4 > 2 {
				fuel--
				if fuel < 0 {
					return h + 7
				}
				b = b*4 + a
				fuel--
				if fuel < 0 {
					return h + 7
				}
				a += 1
				fuel--
				if fuel < 0 {
					return h + 7
				}
				h = h*31 + u32(a&1023) + u32(b&255)*1 + 3731
			}
			fuel--
			if fuel < 0 {
				return h + 7
			}
			if c%5 >= 4 && b&7 != 0 {
				continue
			}
			fuel--
			if fuel < 0 {
				return h + 7
			}
			if i0%6 < 2 {
				fuel--
				if fuel < 0 {
					return h + 7
				}
				a += 5
				fuel--
				if fuel < 0 {
					return h + 7
				}
				h = h*31 + u32(a&1023) + u32(b&255)*2 + 9045
				fuel--
				if fuel < 0 {
					return h + 7
				}
				a += 3
				fuel--
				if fuel < 0 {
					return h + 7
				}
				b = b*3 + a
			}
		}
	}
	return h + u32(a&0xff) + u32(b&0xff)<<8 + u32(c&0xff)<<16
}

func main() {
	for a := i32(0); a < 4; a++ {
		for b := i32(0); b < 3; b++ {
			println(f(a, b, a*7+b))
		}
	}
}

