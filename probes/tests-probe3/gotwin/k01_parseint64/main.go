package main

import "strconv"
import "math/bits"

func main() {
	v, err := strconv.ParseInt("-1", 10, 64)
	println(v, err == nil)
	u, err2 := strconv.ParseUint("5", 10, 64)
	println(u, err2 == nil)
	w, err3 := strconv.ParseInt("123", 10, 64)
	println(w, err3 == nil)
	q, r := bits.Div64(0, 10, 0xffffffffffffffff)
	println(q, r, bits.Rem64(0, 10, 0xffffffffffffffff))
}

