package main

// recursive and unusual type declarations
type T struct {
	next *T
	m map[string]*T
	s []*T
	v i32
}

type A struct {
	b *B
	n i32
}
type B struct {
	a []A
}


type Chain interface {
	Next()  Chain
	Val()  i32
}

type link struct {
	v i32
	n *link
}

func (l *link) Next()  Chain {
	if l.n == nil {
		return nil
	}
	return l.n
}
func (l *link) Val()  i32 { return l.v }

type IntMap map[string]i32

func (m *IntMap) Total()  i32 {
	var t i32
	for _, v := range *m {
		t += v
	}
	return t
}

type Pred func(i32)  bool

func (p *Pred) Not()  Pred {
	f := *p
	return func(x i32)  bool { return !f(x) }
}

type Matrix [2][2]i32

func (m *Matrix) Mul(o *Matrix)  Matrix {
	var r Matrix
	for i := 0; i < 2; i++ {
		for j := 0; j < 2; j++ {
			for k := 0; k < 2; k++ {
				r[i][j] += m[i][k] * o[k][j]
			}
		}
	}
	return r
}


func main() {
	t := T{v: 1}
	t.next = &T{v: 2}
	t.m = map[string]*T{"k": {v: 3}}
	t.s = []*T{{v: 4}, {v: 5, s: []*T{{v: 6}}}}
	println(t.v, t.next.v, t.m["k"].v, t.s[1].s[0].v, t.next.next == nil)
	a := A{n: 1}
	a.b = &B{a: []A{{n: 2}, {n: 3}}}
	println(a.b.a[1].n)
	var c Chain = &link{1, &link{2, &link{3, nil}}}
	sum := i32(0)
	for c != nil {
		sum += c.Val()
		c = c.Next()
	}
	println(sum)
	im := IntMap{"a": 1, "b": 2}
	im["c"] = 3
	println(im.Total(), len(im))
	var even Pred = func(x i32)  bool { return x%2 == 0 }
	odd := even.Not()
	println(even(2), odd(2), odd(3))
	m := Matrix{{1, 1}, {1, 0}}
	r := m
	for i := 0; i < 5; i++ {
		r = r.Mul(&m)
	}
	println(r[0][0], r[0][1], r[1][1])
	// anonymous struct identical types assignable
	p1 := struct {
		x, y i32
	}{1, 2}
	p2 := struct {
		x, y i32
	}{}
	p2 = p1
	println(p2.y, p1 == p2)
	// multi-assign into fields, map elements, blank
	var tt T
	mm := map[string]i32{}
	tt.v, mm["x"], _ = three()
	println(tt.v, mm["x"])
}

func three()  (i32, i32, i32) { return 7, 8, 9 }

