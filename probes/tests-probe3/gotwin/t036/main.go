package main

type Empty struct {
}
type HasEmpty struct {
	a i32
	e Empty
}
func main() {
	h := HasEmpty{1, Empty{}}
	h2 := h
	println(h == h2)
	var i, j interface{} = Empty{}, Empty{}
	println(i == j)
}

