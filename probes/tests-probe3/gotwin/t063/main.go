package main

var order string

func reg(s string, v i32)  i32 {
	order += s
	return v
}

var a = reg("a", b+c)
var b = reg("b", fb())
var c = reg("c", 3)
var d = reg("d", 4)
var e = func()  i32 { return reg("e", d*2) }()
var f, g = pair()
var h = T{reg("h", 1)}.v
var tbl = map[string]i32{"x": reg("x", a), "y": reg("y", g)}

type T struct {
	v i32
}

func fb()  i32 { return c + d }

func pair()  (i32, i32) {
	order += "p"
	return e + 1, e + 2
}

func init() {
	order += "[i1]"
	a++
}

func init() {
	order += "[i2]"
	a *= 2
}

func main() {
	println(order)
	println(a, b, c, d, e, f, g, h, tbl["x"], tbl["y"])
}

