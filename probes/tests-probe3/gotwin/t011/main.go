package main

// division overflow cases and conversions between integer kinds
func main() {

	i64s := []i64{0, 1, -1, 127, 128, 255, 256, -128, -129, 32767, 32768, 65535, 65536, -32768, -32769, 2147483647, 2147483648, 4294967295, 4294967296, -2147483648, -2147483649, 9223372036854775807, -9223372036854775808, 0x1234567890ABCDEF}
	for _, v := range i64s {
		println("from i64", v, u8(v), u16(v), u32(v), u64(v), i32(v), int(i32(v)), uint(u32(v)))
		x := i32(v)
		println("from i32", x, u8(x), u16(x), u32(x), u64(x), i64(x))
		y := u32(v)
		println("from u32", y, u8(y), u16(y), i32(y), u64(y), i64(y))
		z := u16(v)
		println("from u16", z, u8(z), i32(z), u32(z), u64(z), i64(z))
		w := u8(v)
		println("from u8", w, u16(w), i32(w), u32(w), u64(w), i64(w))
		q := u64(v)
		println("from u64", q, u8(q), u16(q), i32(q), u32(q), i64(q))
	}
	// rune and byte
	var r rune = 'x'
	var c byte = 'y'
	println(i64(r), c, i64(r+1), c+1, i64(rune(c)), byte(r))
}

