package main

func main() {
	// add during iteration: every pre-existing key visited exactly once
	m3 := map[i32]i32{1: 1, 2: 2, 3: 3}
	seen := 0
	for k := range m3 {
		if k <= 3 {
			seen++
		}
		m3[k+100] = k
	}
	println(seen)
}

