package main

func main() {
	s := "abc"
	i := 3
	println("before")
	println(s[i])
	println("after")
}

