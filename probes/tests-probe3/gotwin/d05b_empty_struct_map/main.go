package main

func main() {
	set := map[string]struct{}{}
	set["a"] = struct{}{}
	_, ok := set["a"]
	println(len(set), ok)
}

