package main

func main() {
	strs := []string{"", "a", "ab", "abc", "b", "A", "a\x00", "\xff", "世", "世界"}
	for i, a := range strs {
		for j, b := range strs {
			println(i, j, a < b, a <= b, a == b, a != b, a > b, a >= b)
		}
	}
}

