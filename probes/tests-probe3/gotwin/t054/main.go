package main

type P struct {
	f f64
	s string
}

func main() {
	var z f64
	nan := z / z
	var i1 interface{} = nan
	var i2 interface{} = nan
	println(i1 == i2, i1 == i1, i1 != i2)
	i1 = P{nan, "a"}
	i2 = P{nan, "a"}
	println(i1 == i2)
	i1 = [2]f64{1, nan}
	println(i1 == i1)
	i1 = f32(nan)
	println(i1 == i1)
	i1 = complex(nan, 0)
	println(i1 == i1)
	// map with interface keys holding floats
	m := map[interface{}]i32{}
	m[1.5] = 1
	m[2.5] = 2
	m[nan] = 3
	println(len(m), m[1.5], m[2.5])
}

