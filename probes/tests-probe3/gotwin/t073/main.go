package main

func main() {
	var g complex64 = complex(1.5, 2.5)
	x := complex128(g)
	println(i32(real(x) * 100))
}

