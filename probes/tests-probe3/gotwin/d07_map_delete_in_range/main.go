package main

func main() {
	m := map[i32]i32{}
	for i := i32(0); i < 10; i++ {
		m[i] = i
	}
	visited := 0
	for k := range m {
		visited++
		delete(m, k)
	}
	println(visited, len(m))
}

