package main

type (
	Celsius f64
	Pt      struct {
		x, y i32
	}
)

var (
	ga = 1
	gb = ga + 1
)

const (
	F0 = 1 << iota
	F1
	F2
	_
	F4
)

func idx(m map[string]i32, k string)  i32 {
	if v, ok := m[k]; ok {
		return v
	} else if len(k) > 1 {
		return -2
	}
	return -1
}

func takes(a i32, s string)  string { return s }

func main() {
	println(F0, F1, F2, F4, ga, gb, i32(Celsius(1.5)*2), Pt{1, 2}.y)
	m := map[string]i32{"a": 1}
	println(idx(m, "a"), idx(m, "b"), idx(m, "bb"))
	a, b := 0, 1
	for i := 0; i < 10; i++ {
		a, b = b, a+b
	}
	println(a, b)
	var any interface{} = "str"
	println(takes(1, any.(string)))
	pa := &[3]i32{1, 2, 3}
	pa[1] = 20
	println(pa[1], len(pa))
	names := [...]string{2: "c", 0: "a", 1: "b"}
	println(len(names), names[0]+names[1]+names[2])
	fs := []func(i32)  i32{
		func(x i32)  i32 { return x + 1 },
		func(x i32)  i32 { return x * 2 },
	}
	v := i32(3)
	for _, f := range fs {
		v = f(v)
	}
	println(v)
	{
		v := "inner"
		_ = v
	}
	println(v)
	// shadowing builtins
	len2 := 3
	cap := func(x i32)  i32 { return x * 2 }
	println(len2, cap(4))
	{
		println := 5
		_ = println
	}
	nil_ := 0
	_ = nil_
	true_ := false
	println(true_)
	// nested composite literals
	type Line struct {
		a, b Pt
		tags []string
		m map[string]Pt
	}
	ln := Line{Pt{1, 2}, Pt{x: 3}, []string{"t"}, map[string]Pt{"o": {}}}
	lns := []Line{ln, {a: Pt{9, 9}}}
	println(ln.b.x, ln.b.y, lns[1].a.x, len(lns[1].tags), ln.m["o"].x, len(lns[0].m))
	pl := &Line{tags: []string{"a", "b"}}
	println(len(pl.tags), pl.a.x)
	arrp := [2]*Pt{{1, 2}, nil}
	println(arrp[0].y, arrp[1] == nil)
	mm := map[Pt][]Pt{{1, 2}: {{3, 4}, {5, 6}}}
	println(mm[Pt{1, 2}][1].y)
	// expression statements & op precedence
	x := 2 + 3*4 - 10/3%2<<1
	y := 7 &^ 2 | 1 ^ 4 & 6
	z := -x + ^y
	w := x < y == (y > z) != false
	println(x, y, z, w, 1+2 == 3 && 4-1 == 3 || false)
	var u u8 = 1
	u = u<<7>>3 | u&^u
	println(u, 5/2*2, 5%3*2, -5%3, 1<<2+1, 1<<(2+1))
}

