package main

// constants, iota, typed/untyped, global init order
const (
	A = iota
	B
	C
	_
	E
)

const (
	KB = 1 << (10 * (iota + 1))
	MB
	GB
)

type Weekday i32

const (
	Sun Weekday = iota
	Mon
	Tue
)

const (
	x0, y0 = iota, iota * 10
	x1, y1
	x2, y2
)

const big = 1 << 62
const huge = big * 4 / 8
const fc = 1.0 / 4
const typed i64 = 1 << 40
const str = "abc" + "def"
const b = len(str)
const bl = A < B
const r = 'a' + 1
const mask = ^u32(0)
const neg = -5 % 3
const negd = -5 / 2
const sh = 1 << 3 >> 1
const fmix = 3 / 2 * 2.0
const imix = 3 / 2.0

var g1 i32 = g2 + 1
var g2 i32 = f3()
var g3 i32 = 10

func f3()  i32 { return g3 * 2 }

var ga = [3]i32{g1, g2, g3}
var gs = []string{"x", str}
var gm = map[string]i32{"k": g1}
var gp = &g3
var gi64 i64 = 1234567890123
var garr64 = [2]i64{-1, 1 << 40}
var gu64 u64 = 18446744073709551615
var gf f64 = 1.5
var gf32 f32 = 0.25
var gstruct = struct {
	a i64
	b u8
}{5000000000, 200}

func init() {
	g3 += 1
}

func main() {
	println(A, B, C, E, KB, MB, GB)
	println(i32(Sun), i32(Mon), i32(Tue), x0, y0, x1, y1, x2, y2)
	println(i64(huge), i32(fc*8), typed, str, b, bl, i64(r), mask, neg, negd, sh, i32(fmix), i32(imix*10))
	println(g1, g2, g3, ga[0], ga[1], ga[2], gs[1], gm["k"], *gp)
	println(gi64, garr64[0], garr64[1], gu64, i32(gf*2), i32(gf32*8), gstruct.a, gstruct.b)
	var u u8 = 200
	var v = u + 100
	println(v)
	const c300 = 300
	var w i32 = c300 * 10000000 / 10000000
	println(w)
	var f f32 = 1 / 3.0
	println(i32(f * 3000))
	var sx i64 = 1 << 35
	println(sx)
	var shv u32 = 5
	var i i64 = 1 << shv
	println(i)
	var d = 7 / 2
	var e = 7 / 2.0
	println(d, i32(e*2))
	println(i32('a'), "s"+"t", 07, 0x1F, 0b101, 1_000, 0o17)
	println(5.0 == 5, i32(2.0))
	var by byte = 'A' + 2
	println(by)
	var rr rune = '世'
	println(i64(rr))
	println(-7/2, -7%2, 7/-2, 7%-2, -7>>1, u32(1)<<31)
}

