package main

// memory / refcount stress with checksums
type Node struct {
	key string
	vals []i32
	left *Node
	right *Node
	meta map[string]i32
	cb func()  i32
}

var seed u32 = 42

func rnd()  u32 {
	seed = seed*1664525 + 1013904223
	return seed >> 8
}

func insert(n *Node, k string, v i32)  *Node {
	if n == nil {
		nn := &Node{key: k, meta: map[string]i32{}}
		nn.vals = append(nn.vals, v)
		nn.meta[k] = v
		nn.cb = func()  i32 { return v * 2 }
		return nn
	}
	if k < n.key {
		n.left = insert(n.left, k, v)
	} else if k > n.key {
		n.right = insert(n.right, k, v)
	} else {
		n.vals = append(n.vals, v)
		n.meta[k] += v
	}
	return n
}

func walk(n *Node, h *u32) {
	if n == nil {
		return
	}
	walk(n.left, h)
	for _, c := range []byte(n.key) {
		*h = *h*31 + u32(c)
	}
	for _, v := range n.vals {
		*h = *h*31 + u32(v)
	}
	*h = *h*31 + u32(n.meta[n.key]) + u32(n.cb())
	walk(n.right, h)
}

func key(i u32)  string {
	s := ""
	for j := 0; j < 3; j++ {
		s += string(rune('a' + i%7))
		i /= 7
	}
	return s
}

func main() {
	var h u32
	for round := 0; round < 30; round++ {
		var root *Node
		for i := 0; i < 300; i++ {
			root = insert(root, key(rnd()), i32(rnd()%1000))
		}
		walk(root, &h)
		root = nil
	}
	println(h)
	// slices of strings churn
	var pool []string
	for i := 0; i < 5000; i++ {
		pool = append(pool, key(rnd())+key(rnd()))
		if len(pool) > 100 {
			pool = pool[50:]
		}
		if i%7 == 0 && len(pool) > 2 {
			pool[1] = pool[0] + pool[len(pool)-1]
		}
	}
	var h2 u32
	for _, s := range pool {
		for _, c := range []byte(s) {
			h2 = h2*131 + u32(c)
		}
	}
	println(h2, len(pool))
	// map churn
	m := map[string][]string{}
	for i := 0; i < 3000; i++ {
		k := key(rnd())
		m[k] = append(m[k], key(rnd()))
		if i%5 == 0 {
			delete(m, key(rnd()))
		}
	}
	var h3 u32
	total := 0
	for i := u32(0); i < 343; i++ {
		if vs, ok := m[key(i)]; ok {
			total += len(vs)
			for _, s := range vs {
				h3 = h3*17 + u32(s[0]) + u32(len(s))
			}
		}
	}
	println(h3, total, len(m))
	// interface churn
	var is []interface{}
	for i := 0; i < 2000; i++ {
		switch i % 4 {
		case 0:
			is = append(is, i32(i))
		case 1:
			is = append(is, key(u32(i)))
		case 2:
			is = append(is, []i32{i32(i)})
		case 3:
			is = append(is, &Node{key: key(u32(i))})
		}
		if len(is) > 64 {
			is = is[32:]
		}
	}
	var h4 u32
	for _, v := range is {
		switch x := v.(type) {
		case i32:
			h4 += u32(x)
		case string:
			h4 += u32(len(x)) + u32(x[0])
		case []i32:
			h4 += u32(x[0])
		case *Node:
			h4 += u32(x.key[1])
		}
	}
	println(h4)
}

