package main

// struct layout with mixed-width fields, arrays of narrow types, bools
type Mixed struct {
	a u8
	b i64
	c bool
	d u16
	e f32
	f u8
	g f64
	h [3]u8
	i u16
	j string
	k bool
	l [2]u16
	m i32
}

func mk(n i32)  Mixed {
	return Mixed{u8(n), i64(n) << 33, n%2 == 0, u16(n * 1000), f32(n) / 2, u8(n * 3), f64(n) * 1.5, [3]u8{u8(n), u8(n + 1), u8(n + 2)}, u16(n * 7), "s", n > 2, [2]u16{u16(n), u16(n * 2)}, -n}
}

func sum(m Mixed)  i64 {
	r := i64(m.a) + m.b + i64(m.d) + i64(m.e*2) + i64(m.f) + i64(m.g*2) + i64(m.h[0]) + i64(m.h[1])*2 + i64(m.h[2])*3 + i64(m.i) + i64(len(m.j)) + i64(m.l[0]) + i64(m.l[1]) + i64(m.m)
	if m.c {
		r += 1000000
	}
	if m.k {
		r += 2000000
	}
	return r
}

func main() {
	var arr [5]Mixed
	for i := range arr {
		arr[i] = mk(i32(i) + 1)
	}
	sl := arr[1:4]
	cp := make([]Mixed, 3)
	copy(cp, sl)
	cp[0].h[1] = 200
	cp[0].c = !cp[0].c
	for i := range arr {
		print(sum(arr[i]), " ")
	}
	println()
	for i := range cp {
		print(sum(cp[i]), " ")
	}
	println()
	println(arr[1] == cp[0], arr[2] == cp[1])
	bs := make([]bool, 10)
	for i := range bs {
		bs[i] = i%3 == 0
	}
	n := 0
	for _, b := range bs {
		if b {
			n++
		}
	}
	println(n, bs[3], bs[4])
	u16s := [6]u16{1, 65535, 256, 255, 32768, 2}
	var s32 u32
	for _, v := range u16s {
		s32 += u32(v)
	}
	u16s[1]++
	u16s[4] *= 2
	println(s32, u16s[1], u16s[4])
	ba := [4]bool{true, false, true}
	bb := ba
	bb[1] = true
	println(ba == bb, ba[1], bb[1], ba[3])
	m := map[u8]Mixed{}
	m[3] = mk(3)
	m[255] = mk(9)
	println(sum(m[3]), sum(m[255]), sum(m[0]))
	p := &arr[2]
	p.a += 250
	p.d += 65000
	p.l[1]--
	println(p.a, p.d, p.l[1], arr[2].a)
	var i interface{} = arr[0]
	println(sum(i.(Mixed)))
}

