package main

// MinInt / -1
func main() {
	var a i32 = -2147483648
	var m1 i32 = -1
	println(a % m1)
	var b i64 = -9223372036854775808
	var m2 i64 = -1
	println(b % m2)
	println(a / m1)
	println(b / m2)
}

