package main

type F func()  F
func main() {
	cnt := 0
	var f F
	f = func()  F {
		cnt++
		if cnt < 3 {
			return f
		}
		return nil
	}
	for g := f; g != nil; g = g() {
	}
	println(cnt)
}

