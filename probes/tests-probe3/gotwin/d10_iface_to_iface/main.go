package main

type Shape interface {
	Area()  i32
}

type Both interface {
	Area()  i32
	Extra()  i32
}

type Sq struct {
	s i32
}

func (r *Sq) Area()  i32 { return r.s * r.s }
func (r *Sq) Extra()  i32 { return 7 }

func main() {
	var b Both = &Sq{4}
	var s Shape = b
	println(s.Area())
}

