package main

type Node struct {
	next *Node
}

func (n *Node) Len()  i32 {
	if n == nil {
		return 0
	}
	return 1 + n.next.Len()
}

func main() {
	var n *Node
	println(n.Len())
	println((&Node{}).Len())
}

