package main

func main() {
	s := "a\xffb"
	n := 0
	for i, r := range s {
		println(i, i64(r))
		n++
	}
	println(n, len([]rune(s)))
	for i, r := range "\xc0\x80" {
		println(i, i64(r))
	}
}

