package main

// closures
func counter()  func()  i32 {
	c := i32(0)
	return func()  i32 {
		c++
		return c
	}
}

func apply(f func(i32)  i32, v i32)  i32 { return f(v) }

func adder(n i32)  func(i32)  i32 {
	return func(x i32)  i32 { return x + n }
}

type Acc struct {
	total i32
}

func (a *Acc) Add(v i32)  i32 {
	a.total += v
	return a.total
}

func fib(n i32)  i32 {
	var f func(i32)  i32
	f = func(k i32)  i32 {
		if k < 2 {
			return k
		}
		return f(k-1) + f(k-2)
	}
	return f(n)
}

func main() {
	c1 := counter()
	c2 := counter()
	println(c1(), c1(), c2(), c1())
	println(apply(adder(10), 5))
	// loop capture: (Go 1.22 per-iteration semantics vs old) -- capture explicit copies only
	var fs []func()  i32
	for i := i32(0); i < 3; i++ {
		j := i
		fs = append(fs, func()  i32 { return j * 10 })
	}
	for _, f := range fs {
		print(f(), " ")
	}
	println()
	// shared variable between closures
	x := 1
	inc := func() { x++ }
	get := func()  int { return x }
	inc()
	inc()
	x += 10
	println(get(), x)
	// method value
	a := &Acc{}
	add := a.Add
	add(3)
	add(4)
	println(a.total)
	// method expression
	println(a.Add(10))
	// closure capturing struct & array by reference
	arr := [3]i32{1, 2, 3}
	st := Acc{5}
	mod := func() {
		arr[0] = 100
		st.total = 50
	}
	mod()
	println(arr[0], st.total)
	println(fib(15))
	// immediately invoked
	r := func(a, b i32)  i32 { return a * b }(6, 7)
	println(r)
	// closure returning multiple
	mr := func()  (i32, string) { return 1, "s" }
	p, q := mr()
	println(p, q)
	// nil func
	var nf func()
	println(nf == nil)
	nf = func() {}
	println(nf == nil)
	// closures in map/struct
	ops := map[string]func(i32, i32)  i32{
		"add": func(a, b i32)  i32 { return a + b },
		"sub": func(a, b i32)  i32 { return a - b },
	}
	println(ops["add"](5, 3), ops["sub"](5, 3))
	// nested closure depth
	mk := func(a i32)  func(i32)  func(i32)  i32 {
		return func(b i32)  func(i32)  i32 {
			return func(c i32)  i32 { return a*100 + b*10 + c }
		}
	}
	println(mk(1)(2)(3))
	// captured param modification
	pf := func(v i32)  func()  i32 {
		v *= 2
		return func()  i32 { v++; return v }
	}
	g := pf(5)
	println(g(), g())
	// variadic
	println(vsum(), vsum(1), vsum(1, 2, 3), vsum([]i32{4, 5}...))
}

func vsum(xs ...i32)  i32 {
	var t i32
	for _, x := range xs {
		t += x
	}
	return t + i32(len(xs))*1000
}

