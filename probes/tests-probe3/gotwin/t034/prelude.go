package main

import (
	"fmt"
	"os"
	"bufio"
)

type i8 = int8
type i16 = int16
type i32 = int32
type i64 = int64
type u8 = uint8
type u16 = uint16
type u32 = uint32
type u64 = uint64
type f32 = float32
type f64 = float64

var stdout = bufio.NewWriter(os.Stdout)

func println(a ...any) { fmt.Fprintln(stdout, a...); stdout.Flush() }
func print(a ...any) {
	for i, x := range a {
		if i > 0 {
			fmt.Fprint(stdout, " ")
		}
		fmt.Fprint(stdout, x)
	}
	stdout.Flush()
}
