package main

// zero-size types
type Empty struct {
}

type HasEmpty struct {
	a i32
	e Empty
	b i32
}

func (e *Empty) Hello()  string { return "hi" }

func main() {
	set := map[string]struct{}{}
	set["a"] = struct{}{}
	set["b"] = struct{}{}
	set["a"] = struct{}{}
	_, ok := set["a"]
	_, ok2 := set["c"]
	println(len(set), ok, ok2)
	var e Empty
	println(e.Hello())
	h := HasEmpty{1, Empty{}, 2}
	h2 := h
	h2.b = 3
	println(h.a, h.b, h2.b)
	es := make([]Empty, 5)
	es = append(es, Empty{})
	println(len(es))
	var z [0]i32
	println(len(z), len(z[:]))
	for range z {
		println("never")
	}
	var i interface{} = Empty{}
	_, isE := i.(Empty)
	println(isE)
	pe := &Empty{}
	println(pe != nil)
}

