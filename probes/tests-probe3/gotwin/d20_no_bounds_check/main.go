package main

func main() {
	s := []i32{1, 2, 3}
	i := 5
	t := s[1:i]
	println(len(t), t[3])
	str := "abc"
	println(str[i-2])
}

