package main

import "encoding/hex"
import "encoding/base64"
import "encoding/base32"
import "encoding/binary"
import "hash/crc32"
import "hash/crc64"
import "hash/adler32"
import "hash/fnv"
import "crypto/md5"
import "unicode/utf16"

func main() {
	inputs := []string{"", "a", "ab", "abc", "abcd", "hello, world", "\x00\xff\x80\x7f", "The quick brown fox jumps over the lazy dog", "世界"}
	for _, s := range inputs {
		b := []byte(s)
		h := hex.EncodeToString(b)
		d, err := hex.DecodeString(h)
		println(h, string(d) == s, err == nil)
		e := base64.StdEncoding.EncodeToString(b)
		e2 := base64.URLEncoding.EncodeToString(b)
		e3 := base64.RawStdEncoding.EncodeToString(b)
		dd, err := base64.StdEncoding.DecodeString(e)
		println(e, e2, e3, string(dd) == s, err == nil)
		f := base32.StdEncoding.EncodeToString(b)
		fd, err := base32.StdEncoding.DecodeString(f)
		println(f, string(fd) == s, err == nil)
		println(crc32.ChecksumIEEE(b), crc32.Checksum(b, crc32.MakeTable(crc32.Castagnoli)), adler32.Checksum(b), crc64.Checksum(b, crc64.MakeTable(crc64.ISO)), crc64.Checksum(b, crc64.MakeTable(crc64.ECMA)))
		h32 := fnv.New32()
		h32.Write(b)
		h32a := fnv.New32a()
		h32a.Write(b)
		h64 := fnv.New64()
		h64.Write(b)
		h64a := fnv.New64a()
		h64a.Write(b)
		println(h32.Sum32(), h32a.Sum32(), h64.Sum64(), h64a.Sum64())
		md := md5.New()
		md.Write(b)
		println(hex.EncodeToString(md.Sum(nil)))
	}
	_, err := hex.DecodeString("abc")
	println(err != nil)
	_, err = hex.DecodeString("zz")
	println(err != nil)
	_, err = base64.StdEncoding.DecodeString("!!!!")
	println(err != nil)
	_, err = base64.StdEncoding.DecodeString("YQ")
	println(err != nil)
	buf := make([]byte, 8)
	binary.LittleEndian.PutUint64(buf, 0x0102030405060708)
	println(buf[0], buf[7], binary.BigEndian.Uint64(buf), binary.LittleEndian.Uint32(buf[2:]), binary.BigEndian.Uint16(buf[1:]))
	binary.BigEndian.PutUint32(buf, 0xdeadbeef)
	binary.BigEndian.PutUint16(buf[4:], 0xcafe)
	println(hex.EncodeToString(buf), binary.LittleEndian.Uint16(buf))
	vb := make([]byte, 10)
	for _, v := range []u64{0, 1, 127, 128, 300, 1 << 32, 1<<64 - 1} {
		n := binary.PutUvarint(vb, v)
		r, m := binary.Uvarint(vb[:n])
		print(n, " ", r == v, " ", m, " ")
	}
	println()
	for _, v := range []i64{0, 1, -1, 63, -64, 64, -65, 1 << 40, -1 << 63, 1<<63 - 1} {
		n := binary.PutVarint(vb, v)
		r, m := binary.Varint(vb[:n])
		print(n, " ", r == v, " ", m, " ")
	}
	println()
	rs := []rune{'a', 0x4e16, 0x1F600, 0xd800, 0x10ffff, 0xffff, 0x10000}
	u := utf16.Encode(rs)
	for _, x := range u {
		print(x, " ")
	}
	println(len(u))
	back := utf16.Decode(u)
	for _, x := range back {
		print(i64(x), " ")
	}
	println()
	println(utf16.IsSurrogate(0xd800), utf16.IsSurrogate(0xe000), i64(utf16.DecodeRune(0xd83d, 0xde00)), i64(utf16.DecodeRune(0x41, 0xde00)))
	r1, r2 := utf16.EncodeRune(0x1F600)
	println(i64(r1), i64(r2))
	bad := utf16.Decode([]u16{0xd800, 0x41, 0xdc00, 0xd83d})
	for _, x := range bad {
		print(i64(x), " ")
	}
	println()
}

