package main

import "strings"

func main() {
	println(strings.Count("é", "\xc3"), strings.Count("ÿ", "\xff"))
	println(strings.Replace("ÿy", "\xff", "X", -1))
}

