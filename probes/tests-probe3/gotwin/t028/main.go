package main

type Z struct {
}

func main() {
	var s []i32
	t := s[0:0]
	println(t == nil, s[:] == nil, len(t))
	e := make([]i32, 0)
	println(e == nil, e[0:0] == nil, e[:0:0] == nil)
	f := []i32{1, 2, 3}
	g := f[3:]
	println(g == nil, len(g), cap(g))
	h := f[:0]
	println(h == nil, cap(h))
	b := []byte("")
	println(b == nil, len(b))
	var str string
	b2 := []byte(str)
	println(b2 == nil)
	r := []rune("")
	println(r == nil)
	a := append([]i32(nil), s...)
	println(a == nil)
	a = append(s, f[:0]...)
	println(a == nil)
	// zero-size element slices
	zs := make([]Z, 3)
	println(len(zs), zs == nil)
	var m map[string]i32
	m2 := map[string]i32{}
	println(m == nil, m2 == nil, len(m2))
	var fn func()
	println(fn == nil)
	var p *i32
	var q *i32
	println(p == nil, p == q)
	x, y := 1, 1
	println(&x == &y, &x == &x)
	// slice of array via pointer nil? skip. cap after make
	mk := make([]i32, 2, 7)
	println(len(mk[:5]), cap(mk[2:]), cap(mk[1:3:4]))
}

