package main

// control flow
func classify(n i32)  string {
	switch {
	case n < 0:
		return "neg"
	case n == 0:
		return "zero"
	case n < 10:
		return "small"
	}
	return "big"
}

func ft(n i32)  string {
	s := ""
	switch n {
	case 1:
		s += "one"
	case 2:
		s += "two"
	case 3:
		s += "three"
	case 4, 5:
		s += "fourfive"
	default:
		s += "def"
	case 6:
		s += "six"
	}
	return s
}

func sideEffects()  i32 {
	println("evaluated")
	return 2
}

func main() {
	for _, n := range []i32{-5, 0, 3, 50} {
		print(classify(n), " ")
	}
	println()
	for n := i32(0); n < 8; n++ {
		print(ft(n), " ")
	}
	println()
	// switch with init and tag evaluated once
	switch x := sideEffects(); x {
	case 1:
		println("1")
	case 2:
		println("2")
	case sideEffects():
		println("never")
	}
	// switch on string
	for _, s := range []string{"a", "bb", "", "zz"} {
		switch s {
		case "a":
			print("A")
		case "bb", "cc":
			print("B")
		case "":
			print("E")
		default:
			print("D")
		}
	}
	println()
	// break inside switch inside for
	for i := 0; i < 5; i++ {
		switch i {
		case 2:
			break
		default:
			print(i)
		}
	}
	println()
	// labelled break/continue
outer:
	for i := 0; i < 4; i++ {
		for j := 0; j < 4; j++ {
			if j == 2 {
				continue outer
			}
			if i == 3 {
				break outer
			}
			print(i, j, ";")
		}
	}
	println()
	// labelled break out of switch in for
loop:
	for i := 0; ; i++ {
		switch {
		case i > 3:
			break loop
		case i%2 == 0:
			continue loop
		}
		print(i)
	}
	println()
	// nested loops w/ labels on inner
	cnt := 0
	for i := 0; i < 3; i++ {
	inner:
		for j := 0; j < 3; j++ {
			for k := 0; k < 3; k++ {
				if k == 1 {
					continue inner
				}
				if j == 2 {
					break inner
				}
				cnt++
			}
		}
	}
	println(cnt)
	// for with multiple vars
	for i, j := 0, 10; i < j; i, j = i+1, j-2 {
		print(i, j, ";")
	}
	println()
	// range int, range with no vars
	t := 0
	for range 5 {
		t++
	}
	for i := range 4 {
		t += i
	}
	println(t)
	// while-like and infinite w/ break
	w := 0
	for w < 10 {
		w += 3
	}
	println(w)
	for {
		w--
		if w < 5 {
			break
		}
	}
	println(w)
	// if-else chain with init
	if v := w * 2; v > 100 {
		println("a")
	} else if u := v + 1; u > 5 {
		println("b", u, v)
	} else {
		println("c")
	}
	// short-circuit
	f := func(s string, r bool)  bool { print(s); return r }
	_ = f("1", false) && f("2", true)
	_ = f("3", true) || f("4", true)
	_ = f("5", true) && f("6", false) || f("7", true)
	println()
	// shadowing
	sh := 1
	{
		sh := 2
		sh++
		_ = sh
	}
	if sh := 5; sh > 0 {
		_ = sh
	}
	println(sh)
	// continue in range loop with index var used after
	var last int
	for i := range []i32{1, 2, 3, 4} {
		if i == 1 {
			continue
		}
		last = i
	}
	println(last)
	// goto-free nested returns in loops
	println(find([]i32{4, 5, 6}, 6), find(nil, 1))
	// switch without condition and with no match
	switch 5 {
	}
	switch z := 3; {
	case z > 2:
		println("z>2")
	}
	// type switch fallthrough-less with multiple types per case
	for _, v := range []interface{}{i32(1), "s", 2.5, nil, true} {
		switch x := v.(type) {
		case i32, string:
			_ = x
			print("i32orstr ")
		case nil:
			print("nil ")
		case f64:
			print("f64 ")
		default:
			print("def ")
		}
	}
	println()
}

func find(s []i32, v i32)  int {
	for i, x := range s {
		if x == v {
			return i
		}
	}
	return -1
}

