package main

import "sort"
import "math"

type byLen []string

func (a *byLen) Len()  int { return len(*a) }
func (a *byLen) Less(i, j int)  bool { return len((*a)[i]) < len((*a)[j]) }
func (a *byLen) Swap(i, j int) { (*a)[i], (*a)[j] = (*a)[j], (*a)[i] }

type rec struct {
	k, seq int
}
type byK []rec

func (a *byK) Len()  int { return len(*a) }
func (a *byK) Less(i, j int)  bool { return (*a)[i].k < (*a)[j].k }
func (a *byK) Swap(i, j int) { (*a)[i], (*a)[j] = (*a)[j], (*a)[i] }

func main() {
	var seed u32 = 12345
	next := func()  int {
		seed = seed*1103515245 + 12345
		return int((seed >> 16) & 0x7fff)
	}
	for _, n := range []int{0, 1, 2, 3, 7, 12, 13, 50, 100, 1000} {
		a := make([]int, n)
		for i := range a {
			a[i] = next()%100 - 50
		}
		sort.Ints(a)
		ok := sort.IntsAreSorted(a)
		var sum int
		for _, v := range a {
			sum += v
		}
		first, last := 0, 0
		if n > 0 {
			first, last = a[0], a[n-1]
		}
		println(n, ok, sum, first, last, sort.SearchInts(a, 0), sort.SearchInts(a, -100), sort.SearchInts(a, 100))
		// stable
		rs := make([]rec, n)
		for i := range rs {
			rs[i] = rec{next() % 5, i}
		}
		bk := byK(rs)
		sort.Stable(&bk)
		stable := true
		for i := 1; i < n; i++ {
			if rs[i-1].k > rs[i].k || (rs[i-1].k == rs[i].k && rs[i-1].seq > rs[i].seq) {
				stable = false
			}
		}
		println(stable)
	}
	ss := []string{"pear", "apple", "fig", "banana", "", "Apple", "zebra", "a"}
	sort.Strings(ss)
	for _, s := range ss {
		print(s, ",")
	}
	println(sort.StringsAreSorted(ss), sort.SearchStrings(ss, "fig"), sort.SearchStrings(ss, "g"))
	bl := byLen([]string{"ccc", "a", "bb", "dddd", ""})
	sort.Sort(&bl)
	for _, s := range bl {
		print(s, ",")
	}
	println(sort.IsSorted(&bl))
	sort.Sort(sort.Reverse(&bl))
	for _, s := range bl {
		print(s, ",")
	}
	println()
	fs := []f64{2.5, -1, math.NaN(), 0, math.Inf(1), math.Inf(-1), 3, math.NaN(), -0.5}
	sort.Float64s(fs)
	for _, f := range fs {
		print(f != f, f > 1e300, f < -1e300, f == 0, ",")
	}
	println(sort.Float64sAreSorted(fs), sort.SearchFloat64s([]f64{1, 2, 3}, 2.5))
	println(sort.Search(100, func(i int)  bool { return i*i >= 50 }), sort.Search(0, func(i int)  bool { return true }), sort.Search(10, func(i int)  bool { return false }))
	idx, found := sort.Find(5, func(i int)  int { return 3 - i })
	println(idx, found)
	idx, found = sort.Find(5, func(i int)  int { return 7 - i })
	println(idx, found)
}

