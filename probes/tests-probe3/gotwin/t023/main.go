package main

// bounds checks: Go panics; does Wa trap?
func main() {
	s := make([]i32, 0, 4)
	i := 0
	println("before")
	s[i] = 1
	println("after", len(s))
}

