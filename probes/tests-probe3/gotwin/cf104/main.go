package main

func f(a, b, c i32)  u32 {
	var h u32 = 17
	var i0 i32
	fuel := 3000
	_ = i0
	fuel--
	if fuel < 0 {
		return h + 7
	}
	switch b%3 {
	case 2, 12:
		fuel--
		if fuel < 0 {
			return h + 7
		}
		if a%2 > 0 {
			break
		}
	case 0:
		fuel--
		if fuel < 0 {
			return h + 7
		}
		if c%7 <= 2 || a&4 != 0 {
			fuel--
			if fuel < 0 {
				return h + 7
			}
			a += 1
			fuel--
			if fuel < 0 {
				return h + 7
			}
			c ^= a + 15
		}
		fuel--
		if fuel < 0 {
			return h + 7
		}
		b = b*2 + a
		fuel--
		if fuel < 0 {
			return h + 7
		}
		if h%2 > 0 {
			fuel--
			if fuel < 0 {
				return h + 7
			}
			switch {
			case b%3 > 1:
				fuel--
				if fuel < 0 {
					return h + 7
				}
				b = b*3 + a
				fuel--
				if fuel < 0 {
					return h + 7
				}
				a += 8
			case a%2 < 1 && c&1 != 0:
				fuel--
				if fuel < 0 {
					return h + 7
				}
				c ^= a + 53
			case h%7 != 3:
				fuel--
				if fuel < 0 {
					return h + 7
				}
				c ^= a + 92
			}
			fuel--
			if fuel < 0 {
				return h + 7
			}
			for i1 := 0; ; i1++ {
				if i1 > 1 {
					break
				}
				i0 = i32(i1)
				fuel--
				if fuel < 0 {
					return h + 7
				}
				a += 8
				fuel--
				if fuel < 0 {
					return h + 7
				}
				a += 4
				fuel--
				if fuel < 0 {
					return h + 7
				}
				c ^= a + 78
			}
			fuel--
			if fuel < 0 {
				return h + 7
			}
			for i2 := 0; ; i2++ {
				if i2 > 2 {
					break
				}
				i0 = i32(i2)
				fuel--
				if fuel < 0 {
					return h + 7
				}
				a += 4
			}
			fuel--
			if fuel < 0 {
				return h + 7
			}
			if i0%3 == 2 && a&7 != 0 {
				break
			}
		}
	default:
		fuel--
		if fuel < 0 {
			return h + 7
		}
		for i3 := 0; ; i3++ {
			if i3 > 2 {
				break
			}
			i0 = i32(i3)
			fuel--
			if fuel < 0 {
				return h + 7
			}
			b = b*2 + a
			fuel--
			if fuel < 0 {
				return h + 7
			}
			switch (a+c)%5 {
			case 0:
				fuel--
				if fuel < 0 {
					return h + 7
				}
				b = b*5 + a
			case 1:
				fuel--
				if fuel < 0 {
					return h + 7
				}
				h = h*31 + u32(a&1023) + u32(b&255)*3 + 8250
				fuel--
				if fuel < 0 {
					return h + 7
				}
				h = h*31 + u32(a&1023) + u32(b&255)*3 + 7523
				fuel--
				if fuel < 0 {
					return h + 7
				}
				a += 5
				fuel--
				if fuel < 0 {
					return h + 7
				}
				a += 6
			case 4:
				fuel--
				if fuel < 0 {
					return h + 7
				}
				a += 8
			}
			fuel--
			if fuel < 0 {
				return h + 7
			}
			if a%2 >= 1 && b&2 != 0 {
				fuel--
				if fuel < 0 {
					return h + 7
				}
				a += 2
				fuel--
				if fuel < 0 {
					return h + 7
				}
				h = h*31 + u32(a&1023) + u32(b&255)*6 + 7729
				fuel--
				if fuel < 0 {
					return h + 7
				}
				b = b*3 + a
				fuel--
				if fuel < 0 {
					return h + 7
				}
				a += 6
			} else {
				fuel--
				if fuel < 0 {
					return h + 7
				}
				b = b*3 + a
				fuel--
				if fuel < 0 {
					return h + 7
				}
				h = h*31 + u32(a&1023) + u32(b&255)*2 + 8545
			}
			fuel--
			if fuel < 0 {
				return h + 7
			}
			for i4 := 0; i4 < 2; i4++ {
				i0 = i32(i4)
				fuel--
				if fuel < 0 {
					return h + 7
				}
				b = b*3 + a
			}
		}
		fuel--
		if fuel < 0 {
			return h + 7
		}
		for i5 := 0; i5 < 5; i5++ {
			i0 = i32(i5)
			fuel--
			if fuel < 0 {
				return h + 7
			}
			a += 5
			fuel--
			if fuel < 0 {
				return h + 7
			}
			h = h*31 + u32(a&1023) + u32(b&255)*5 + 8932
			fuel--
			if fuel < 0 {
				return h + 7
			}
			for i6 := 0; i6 < 5; i6++ {
				i0 = i32(i6)
				fuel--
				if fuel < 0 {
					return h + 7
				}
				b = b*3 + a
				fuel--
				if fuel < 0 {
					return h + 7
				}
				h = h*31 + u32(a&1023) + u32(b&255)*3 + 8501
			}
			fuel--
			if fuel < 0 {
				return h + 7
			}
			h = h*31 + u32(a&1023) + u32(b&255)*9 + 5294
		}
	}
	return h + u32(a&0xff) + u32(b&0xff)<<8 + u32(c&0xff)<<16
}

func main() {
	for a := i32(0); a < 4; a++ {
		for b := i32(0); b < 3; b++ {
			println(f(a, b, a*7+b))
		}
	}
}

