package main

func main() {
	var a, b [0]i32
	println(a == b)
}

