package main

// embedding + interfaces + method promotion
type Animal interface {
	Sound()  string
	Legs()  i32
}

type Base struct {
	legs i32
}

func (b *Base) Legs()  i32 { return b.legs }
func (b *Base) Sound()  string { return "..." }
func (b *Base) Describe()  string { return "base:" + b.Sound() }

type Dog struct {
	Base
	name string
}

func (d *Dog) Sound()  string { return "woof" }

type Puppy struct {
	*Dog
	age i32
}

type Logger interface {
	Log(s string)  string
}

type prefixLogger struct {
	p string
}

func (l *prefixLogger) Log(s string)  string { return l.p + s }

type Service struct {
	Logger
	name string
}

type Counter struct {
	n i32
}

func (c *Counter) Inc() { c.n++ }

type Wrapper struct {
	Counter
}

func main() {
	d := &Dog{Base{4}, "rex"}
	var a Animal = d
	println(a.Sound(), a.Legs(), d.Describe(), d.Base.Sound())
	p := &Puppy{d, 1}
	a = p
	println(a.Sound(), a.Legs(), p.name, p.legs, p.Describe())
	p.legs = 3
	println(d.legs)
	s := Service{&prefixLogger{"> "}, "svc"}
	println(s.Log("hi"))
	var lg Logger = &s
	println(lg.Log("x"))
	var w Wrapper
	w.Inc()
	w.Counter.Inc()
	println(w.n)
	ws := []Wrapper{{}, {}}
	ws[1].Inc()
	println(ws[0].n, ws[1].n)
	for i := range ws {
		ws[i].Inc()
	}
	println(ws[0].n, ws[1].n)
	for _, x := range ws {
		x.Inc()
	}
	println(ws[0].n, ws[1].n)
	mp := map[string]*Wrapper{"a": {}}
	mp["a"].Inc()
	println(mp["a"].n)
	// interface slice
	animals := []Animal{d, p, &Base{2}}
	tot := i32(0)
	for _, an := range animals {
		tot += an.Legs()
		print(an.Sound(), " ")
	}
	println(tot)
	// type conversion between identical struct types / named
	type A struct {
		x i32
	}
	type B struct {
		x i32
	}
	av := A{5}
	bv := B(av)
	println(bv.x)
	type MyInt i32
	type MyInt2 MyInt
	mi := MyInt2(MyInt(7))
	println(i32(mi) + 1)
	// interface holding named non-struct with methods
	tt := Temp(36)
	var st Stringer = &tt
	println(st.String())
	if tv, ok := st.(*Temp); ok {
		println(i32(*tv))
	}
}

type Stringer interface {
	String()  string
}

type Temp i32

func (t *Temp) String()  string { return "temp" }

