package main

var log string

func rec(n i32)  (r i32) {
	defer func() {
		r += n
		log += "r"
	}()
	if n == 0 {
		return 0
	}
	return rec(n-1) * 2
}

func many()  (total i32) {
	for i := i32(0); i < 500; i++ {
		defer func(k i32) { total += k }(i)
	}
	return 1
}

func inner(tag string) {
	defer func() { log += tag + "2" }()
	log += tag + "1"
}

func outer() {
	defer inner("A")
	defer func() {
		inner("B")
		defer inner("C")
	}()
	inner("D")
}

type R struct {
	name string
}

func (r *R) Close() { log += "close:" + r.name + ";" }

type Closer interface {
	Close()
}

func useAll() {
	rs := []*R{{"a"}, {"b"}, {"c"}}
	for _, r := range rs {
		defer r.Close()
	}
	var c Closer = &R{"iface"}
	defer c.Close()
	c = &R{"other"}
}

func retMulti()  (a i32, b string, c []i32) {
	defer func() {
		a++
		b += "!"
		c = append(c, 4)
	}()
	return 1, "s", []i32{1, 2, 3}
}

func loopDefer()  i32 {
	sum := i32(0)
	for i := i32(0); i < 3; i++ {
		func() {
			defer func() { sum += 10 }()
			sum += i
		}()
	}
	return sum
}

func main() {
	println(rec(5), log)
	println(many())
	log = ""
	outer()
	println(log)
	log = ""
	useAll()
	println(log)
	a, b, c := retMulti()
	println(a, b, len(c), c[3])
	println(loopDefer())
}

