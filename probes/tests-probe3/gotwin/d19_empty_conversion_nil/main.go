package main

func main() {
	b := []byte("")
	r := []rune("")
	println(b == nil, r == nil)
}

