package main

type T struct {
	kids []T
	v i32
}

func main() {
	t := T{v: 1, kids: []T{{v: 2}}}
	println(t.kids[0].v)
}

