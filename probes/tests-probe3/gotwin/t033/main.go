package main

type K struct {
	a i32
}
type MyInt i32
func main() {
	var a interface{} = int(1)
	var b interface{} = i32(1)
	var c interface{} = i64(1)
	var d interface{} = u32(1)
	var e interface{} = MyInt(1)
	var f interface{} = rune(1)
	println(a == b, a == c, b == c, b == d, b == e, b == f)
	_, ok1 := a.(i32)
	_, ok2 := b.(int)
	_, ok3 := b.(rune)
	_, ok4 := d.(uint)
	_, ok5 := e.(i32)
	println(ok1, ok2, ok3, ok4, ok5)
	switch a.(type) {
	case i32:
		println("i32")
	case int:
		println("int")
	}
}

