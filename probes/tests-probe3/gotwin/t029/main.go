package main

func dump(s string) {
	for i, r := range s {
		print(i, ":", i64(r), " ")
	}
	println("|", len([]rune(s)))
}

func main() {
	dump("a\U0001F600b")
	dump("\U0010FFFF")
	dump("\xc0\x80")         // overlong
	dump("\xed\xa0\x80")     // surrogate
	dump("\xf4\x90\x80\x80") // > MaxRune
	dump("\xe4\xb8")         // truncated
	dump("\xc3(")            // bad continuation
	dump("ok\x80ok")         // stray continuation
	dump("\xf8\x88\x80\x80\x80")
}

