package main

type Acc struct {
	total i32
}

func (a *Acc) Add(v i32)  i32 {
	a.total += v
	return a.total
}

func main() {
	a := &Acc{}
	add2 := (*Acc).Add
	println(add2(a, 10))
}

