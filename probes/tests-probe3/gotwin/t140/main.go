package main

import "fmt"
import "errors"

func main() {
	fmt.Println(1, "a", errors.New("e"))
	fmt.Println(true, i64(5), 2.5, u8(3), nil, []int{1})
	e1 := errors.New("x")
	e2 := errors.New("x")
	println(e1 == e2, e1 == e1, e1.Error())
}

