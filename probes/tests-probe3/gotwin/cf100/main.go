package main

func f(a, b, c i32)  u32 {
	var h u32 = 17
	var i0 i32
	fuel := 3000
	_ = i0
	fuel--
	if fuel < 0 {
		return h + 7
	}
	if b%7 >= 4 {
		fuel--
		if fuel < 0 {
			return h + 7
		}
		for i1 := 0; i1 < 1; i1++ {
			i0 = i32(i1)
			fuel--
			if fuel < 0 {
				return h + 7
			}
			if c%3 > 2 || b&6 != 0 {
				fuel--
				if fuel < 0 {
					return h + 7
				}
				a += 8
				fuel--
				if fuel < 0 {
					return h + 7
				}
				h = h*31 + u32(a&1023) + u32(b&255)*7 + 2628
				fuel--
				if fuel < 0 {
					return h + 7
				}
				c ^= a + 23
				fuel--
				if fuel < 0 {
					return h + 7
				}
				b = b*3 + a
			} else {
				fuel--
				if fuel < 0 {
					return h + 7
				}
				h = h*31 + u32(a&1023) + u32(b&255)*7 + 2074
				fuel--
				if fuel < 0 {
					return h + 7
				}
				h = h*31 + u32(a&1023) + u32(b&255)*1 + 9979
			}
			fuel--
			if fuel < 0 {
				return h + 7
			}
			c ^= a + 64
		}
	}
	fuel--
	if fuel < 0 {
		return h + 7
	}
	for i2 := range 3 {
		i0 = i32(i2)
		fuel--
		if fuel < 0 {
			return h + 7
		}
		if a%7 < 1 {
			fuel--
			if fuel < 0 {
				return h + 7
			}
			switch {
			case i0%3 <= 0 || c&2 != 0:
				fuel--
				if fuel < 0 {
					return h + 7
				}
				h = h*31 + u32(a&1023) + u32(b&255)*2 + 831
			case h%6 > 1:
				fuel--
				if fuel < 0 {
					return h + 7
				}
				a += 2
				fuel--
				if fuel < 0 {
					return h + 7
				}
				h = h*31 + u32(a&1023) + u32(b&255)*2 + 9759
				fuel--
				if fuel < 0 {
					return h + 7
				}
				b = b*2 + a
			case i0%6 >= 1:
				fuel--
				if fuel < 0 {
					return h + 7
				}
				a += 8
				fuel--
				if fuel < 0 {
					return h + 7
				}
				h = h*31 + u32(a&1023) + u32(b&255)*1 + 3246
				fuel--
				if fuel < 0 {
					return h + 7
				}
				a += 1
				fuel--
				if fuel < 0 {
					return h + 7
				}
				c ^= a + 15
			default:
				fuel--
				if fuel < 0 {
					return h + 7
				}
				b = b*5 + a
				fuel--
				if fuel < 0 {
					return h + 7
				}
				b = b*3 + a
				fuel--
				if fuel < 0 {
					return h + 7
				}
				h = h*31 + u32(a&1023) + u32(b&255)*7 + 2381
				fuel--
				if fuel < 0 {
					return h + 7
				}
				h = h*31 + u32(a&1023) + u32(b&255)*2 + 9795
			}
			fuel--
			if fuel < 0 {
				return h + 7
			}
			h = h*31 + u32(a&1023) + u32(b&255)*5 + 1555
		} else {
			fuel--
			if fuel < 0 {
				return h + 7
			}
			if a%2 == 1 {
				return h
			}
			fuel--
			if fuel < 0 {
				return h + 7
			}
			for i3 := 0; i3 < 1; i3++ {
				i0 = i32(i3)
				fuel--
				if fuel < 0 {
					return h + 7
				}
				c ^= a + 80
				fuel--
				if fuel < 0 {
					return h + 7
				}
				a += 6
			}
			fuel--
			if fuel < 0 {
				return h + 7
			}
			if i0%2 < 2 || c&7 != 0 {
				fuel--
				if fuel < 0 {
					return h + 7
				}
				c ^= a + 87
				fuel--
				if fuel < 0 {
					return h + 7
				}
				h = h*31 + u32(a&1023) + u32(b&255)*9 + 6493
			} else {
				fuel--
				if fuel < 0 {
					return h + 7
				}
				h = h*31 + u32(a&1023) + u32(b&255)*9 + 4436
				fuel--
				if fuel < 0 {
					return h + 7
				}
				b = b*3 + a
				fuel--
				if fuel < 0 {
					return h + 7
				}
				h = h*31 + u32(a&1023) + u32(b&255)*9 + 1819
				fuel--
				if fuel < 0 {
					return h + 7
				}
				a += 2
			}
			fuel--
			if fuel < 0 {
				return h + 7
			}
			for i4 := 0; i4 < 4; i4++ {
				i0 = i32(i4)
				fuel--
				if fuel < 0 {
					return h + 7
				}
				h = h*31 + u32(a&1023) + u32(b&255)*2 + 1137
				fuel--
				if fuel < 0 {
					return h + 7
				}
				b = b*2 + a
				fuel--
				if fuel < 0 {
					return h + 7
				}
				b = b*2 + a
				fuel--
				if fuel < 0 {
					return h + 7
				}
				c ^= a + 71
			}
		}
		fuel--
		if fuel < 0 {
			return h + 7
		}
		for i5 := 0; i5 < 5; i5++ {
			i0 = i32(i5)
			fuel--
			if fuel < 0 {
				return h + 7
			}
			h = h*31 + u32(a&1023) + u32(b&255)*7 + 1706
			fuel--
			if fuel < 0 {
				return h + 7
			}
			for i6 := 0; i6 < 4; i6++ {
				i0 = i32(i6)
				fuel--
				if fuel < 0 {
					return h + 7
				}
				h = h*31 + u32(a&1023) + u32(b&255)*6 + 3750
				fuel--
				if fuel < 0 {
					return h + 7
				}
				a += 9
				fuel--
				if fuel < 0 {
					return h + 7
				}
				a += 8
			}
		}
		fuel--
		if fuel < 0 {
			return h + 7
		}
		for i7 := 0; i7 < 5; i7++ {
			i0 = i32(i7)
			fuel--
			if fuel < 0 {
				return h + 7
			}
			a += 9
			fuel--
			if fuel < 0 {
				return h + 7
			}
			for i8 := range 1 {
				i0 = i32(i8)
				fuel--
				if fuel < 0 {
					return h + 7
				}
				c ^= a + 29
				fuel--
				if fuel < 0 {
					return h + 7
				}
				c ^= a + 14
			}
			fuel--
			if fuel < 0 {
				return h + 7
			}
			h = h*31 + u32(a&1023) + u32(b&255)*2 + 4916
			fuel--
			if fuel < 0 {
				return h + 7
			}
			b = b*5 + a
		}
		fuel--
		if fuel < 0 {
			return h + 7
		}
		if b%3 == 4 {
			break
		}
	}
	return h + u32(a&0xff) + u32(b&0xff)<<8 + u32(c&0xff)<<16
}

func main() {
	for a := i32(0); a < 4; a++ {
		for b := i32(0); b < 3; b++ {
			println(f(a, b, a*7+b))
		}
	}
}

