package main

func main() {
	s := []i32{1, 2, 3}
	i := 2
	j := 1
	println("before")
	t := s[i:j]
	println("after", len(t))
}

