package main

// function values: interface method values, variadic interface args, func fields
type Op interface {
	Apply(a, b i32)  i32
}

type Add struct {
	bias i32
}

func (p *Add) Apply(a, b i32)  i32 { return a + b + p.bias }

type Calc struct {
	op func(i32, i32)  i32
	name string
	hooks []func(string)  string
}

func count(args ...interface{})  int {
	n := 0
	for _, a := range args {
		switch a.(type) {
		case i32, int:
			n += 1
		case string:
			n += 10
		case nil:
			n += 100
		default:
			n += 1000
		}
	}
	return n
}

func join(sep string, parts ...string)  string {
	r := ""
	for i, p := range parts {
		if i > 0 {
			r += sep
		}
		r += p
	}
	return r
}

func twice(f func(i32)  i32)  func(i32)  i32 {
	return func(x i32)  i32 { return f(f(x)) }
}

func named()  (r i32) {
	f := func() { r += 5 }
	f()
	defer f()
	r *= 2
	return r + 1
}

func main() {
	var o Op = &Add{100}
	f := o.Apply
	o = &Add{0}
	println(f(1, 2), o.Apply(1, 2))
	c := Calc{op: f, name: "c"}
	c.hooks = append(c.hooks, func(s string)  string { return s + "!" })
	c.hooks = append(c.hooks, func(s string)  string { return "<" + s + ">" })
	r := c.name
	for _, h := range c.hooks {
		r = h(r)
	}
	println(c.op(3, 4), r)
	println(count(), count(1, "a", nil, 2.5, i32(3)), count([]interface{}{1, 2}...))
	println(join("-"), join("-", "a"), join("-", "a", "b", "c"), join("", []string{"x", "y"}...))
	println(twice(twice(func(x i32)  i32 { return x * 3 }))(1))
	println(named())
	add := &Add{1}
	g := add.Apply
	add.bias = 50
	println(g(0, 0))
	add2 := Add{2}
	g2 := add2.Apply
	add2.bias = 60
	println(g2(0, 0))
	// func in map, called with results used in expression
	table := map[string]func()  (i32, bool){
		"a": func()  (i32, bool) { return 1, true },
	}
	if v, ok := table["a"](); ok {
		println(v)
	}
	if fn, ok := table["zz"]; !ok {
		println(fn == nil)
	}
	// closures over range key/values of map modifications
	acc := 0
	each := func(m map[string]int, fn func(k string, v int)) {
		for k, v := range m {
			fn(k, v)
		}
	}
	each(map[string]int{"a": 1, "b": 2, "c": 3}, func(k string, v int) { acc += v * len(k) })
	println(acc)
	// self-referential closure via struct
	type Rec struct {
		f func(n i32)  i32
	}
	var rec Rec
	rec.f = func(n i32)  i32 {
		if n <= 1 {
			return 1
		}
		return n * rec.f(n-1)
	}
	println(rec.f(10))
	// passing method value as callback
	lst := &List{}
	forEach([]i32{1, 2, 3}, lst.Add)
	println(lst.sum)
	// func returning closures array
	mk := func()  [2]func()  i32 {
		v := i32(0)
		return [2]func()  i32{func()  i32 { v++; return v }, func()  i32 { v += 10; return v }}
	}
	pair := mk()
	println(pair[0](), pair[1](), pair[0]())
}

type List struct {
	sum i32
}

func (l *List) Add(v i32) { l.sum += v }

func forEach(xs []i32, f func(i32)) {
	for _, x := range xs {
		f(x)
	}
}

