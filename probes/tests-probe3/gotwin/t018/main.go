package main

type MyB []byte
type MyS string

func main() {
	var x i64 = 65
	var y u16 = 66
	var z u32 = 0x4e16
	println(string(rune(x)), string(rune(y)), string(rune(z)))
	b := MyB("hey")
	b[0] = 'H'
	println(string(b), len(b))
	s := MyS("abc")
	bs := []byte(s)
	rs := []rune(s)
	println(len(bs), len(rs), string(s[1:]))
	s2 := MyS(b)
	println(string(s2))
	s3 := MyS(rs)
	println(string(s3) + "!")
}

