package main

func main() {
	m := map[i32]i32{1: 1, 2: 2, 3: 3}
	n := 0
	for k := range m {
		n++
		if n > 100000 {
			println("runaway")
			return
		}
		m[k+100] = k
	}
	println("terminated")
}

