package main

import "math"

func main() {
	var d0 f64 = -0.0000001
	_ = d0
	var s0 f32 = 0.0
	_ = s0
	var d1 f64 = 1.0
	_ = d1
	var s1 f32 = 1.0
	_ = s1
	var d2 f64 = -3.75
	_ = d2
	var s2 f32 = -1.5
	_ = s2
	var d3 f64 = 16777217.0
	_ = d3
	var s3 f32 = 16777216.0
	_ = s3
	var d4 f64 = 1e10
	_ = d4
	var s4 f32 = 0.1
	_ = s4
	var d5 f64 = 1e300
	_ = d5
	var s5 f32 = 0.0
	_ = s5
	var i0 i32 = -1
	_ = i0
	var l0 i64 = 9007199254740993
	_ = l0
	var b0 u8 = 255
	_ = b0
	var i1 i32 = 2147483647
	_ = i1
	var l1 i64 = -9007199254740993
	_ = l1
	var b1 u8 = 255
	_ = b1
	var i2 i32 = -100
	_ = i2
	var l2 i64 = 0
	_ = l2
	var b2 u8 = 0
	_ = b2
	println(0, math.Float32bits((((s2 - s4) * (-s3)) / f32(l2))))
	println(1, math.Float32bits((((-(s3 * s5)) / (f32(b1) / f32(b0))) * (f32((d4 / d2)) - (f32(l2) + (s5 + s0))))))
	println(2, math.Float64bits(math.Sqrt((f64((s5 + s0)) * (d0 + d5))*(d1 - (f64(s1) - (d4 + d2)))+1)))
	println(3, math.Float32bits(((((s1 + s5) * (s1 / s3)) * s2) * f32(b0))))
	println(4, math.Float64bits((d3 - f64(i0))))
	println(5, math.Float64bits(d0))
	println(6, math.Float64bits(f64(((s3 - s5) + (s1 + (s3 / s2))))))
	println(7, math.Float32bits(f32(b1)))
	println(8, math.Float32bits(((s0 / ((-s2) * f32(l0))) + f32(((d3 / d1) + d0)))))
	println(9, math.Float32bits(((f32(d2) / (s4 * f32(b0))) + (s5 / f32(i1)))))
	println(10, math.Float32bits(f32(((-(d4 * d4)) / (-d5)))))
	println(11, math.Float64bits(d4))
	println(12, f64((-(s2 / s1))) >= (-(d4 / d4)))
	println(13, math.Float64bits(math.Abs(((f64(s3) / f64(s3)) - ((d5 / d5) / (d5 + d5)))*(-(-(-d0)))+1)))
	println(14, math.Float32bits(f32(b0)))
	println(15, math.Float64bits(f64(f32(i1))))
	println(16, math.Float64bits(((-d5) / (d5 - f64(f32(b2))))))
	println(17, math.Float64bits((-((d2 - f64(l1)) - d3))))
	println(18, ((s0 / (s5 * s3)) - ((s2 * s2) * (s0 - s3))) > f32(b2))
	println(19, math.Float64bits(((((d2 - d2) * d3) * d3) * (f64(i1) * d1))))
	println(20, math.Float32bits((f32(f64((s5 * s2))) * f32(f64(b1)))))
	println(21, math.Float64bits(((math.Sqrt((d0 + d2)*d0+1) / d2) - (((d1 / d0) - (d1 / d2)) * d1))))
	println(22, math.Float64bits(((-math.Sqrt((d2 - d2)*f64(s2)+1)) / (((d4 + d4) / f64(s3)) - (d0 / (d5 - d0))))))
	println(23, math.Float32bits((s2 - s1)))
	println(24, math.Float32bits(s5))
	println(25, math.Float32bits(((s4 + s4) + (f32(i1) / s4))))
	println(26, math.Float64bits(f64((-(-f32(b2))))))
	println(27, math.Float64bits((((d1 / (d0 + d3)) * f64((s5 - s5))) + d4)))
	println(28, math.Float64bits((d0 * (d1 - (d0 - (d1 + d5))))))
	println(29, math.Float32bits((f32((d3 + (-d0))) * (((s5 - s3) - f32(d3)) / ((-s4) / f32(d4))))))
	println(30, math.Float32bits(s4))
	println(31, math.Float32bits((-(-((s0 + s1) * s4)))))
	println(32, math.Float32bits(f32(d3)))
	println(33, math.Float64bits((d3 + ((f64(s1) - f64(s1)) - f64(l2)))))
	println(34, math.Float32bits((s5 - s4)))
	println(35, s3 != f32(l0))
	println(36, math.Float64bits(f64(s4)))
	println(37, math.Float64bits(((((d5 / d5) - (d0 - d5)) - (d1 * (d4 + d5))) - ((-f64(l1)) + ((d5 * d3) * f64(i0))))))
	println(38, math.Float32bits(((s5 + ((s1 - s1) + s5)) * ((f32(d1) / s2) + f32(i0)))))
	println(39, math.Float64bits((((f64(l0) - (d2 + d4)) - (f64(b1) - f64(l0))) + (d3 * (d3 * (d5 + d3))))))
}

