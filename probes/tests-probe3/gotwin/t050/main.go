package main

// interfaces
type Shape interface {
	Area()  i32
	Name()  string
}

type Rect struct {
	w, h i32
}

func (r *Rect) Area()  i32 { return r.w * r.h }
func (r *Rect) Name()  string { return "rect" }

type Sq struct {
	s i32
}

func (r *Sq) Area()  i32 { return r.s * r.s }
func (r *Sq) Name()  string { return "sq" }
func (r *Sq) Extra()  i32 { return 7 }

type Extra interface {
	Extra()  i32
}

type Stringer interface {
	String()  string
}

type MyErr struct {
	code i32
}

func (e *MyErr) Error()  string { return "myerr" }

func mayFail(n i32)  error {
	if n == 0 {
		return nil
	}
	return &MyErr{n}
}

func retNilPtr()  error {
	var p *MyErr
	return p
}

func describe(v interface{})  string {
	switch x := v.(type) {
	case nil:
		return "nil"
	case i32:
		if x > 5 {
			return "big i32"
		}
		return "i32"
	case i64:
		return "i64"
	case string:
		return "string " + x
	case bool:
		return "bool"
	case f64:
		return "f64"
	case []i32:
		return "slice"
	case *Rect:
		return "rectptr"
	case Rect:
		return "rect"
	case Shape:
		return "shape " + x.Name()
	case error:
		return "error " + x.Error()
	case func():
		return "func"
	case map[string]i32:
		return "map"
	case [2]i32:
		return "array"
	}
	return "other"
}

func main() {
	var s Shape
	println(s == nil)
	s = &Rect{2, 3}
	println(s.Area(), s.Name(), s == nil)
	shapes := []Shape{&Rect{1, 2}, &Sq{3}}
	for _, sh := range shapes {
		print(sh.Name(), sh.Area(), " ")
		if e, ok := sh.(Extra); ok {
			print("extra", e.Extra(), " ")
		}
		if _, ok := sh.(*Rect); ok {
			print("isrect ")
		}
		_, ok := sh.(Stringer)
		print(ok)
	}
	println()
	println(describe(nil), describe(i32(3)), describe(i32(9)), describe(i64(1)), describe("s"), describe(true), describe(1.5))
	println(describe([]i32{1}), describe(&Rect{}), describe(Rect{}), describe(&Sq{}), describe(&MyErr{}), describe(func() {}), describe(map[string]i32{}), describe([2]i32{}), describe(u8(1)))
	// error iface
	e := mayFail(0)
	println(e == nil)
	e = mayFail(3)
	println(e != nil, e.Error())
	if me, ok := e.(*MyErr); ok {
		println(me.code)
	}
	// nil pointer in interface is not nil interface
	e2 := retNilPtr()
	println(e2 == nil, e2 != nil)
	// iface equality
	var a, b interface{}
	println(a == b)
	a = i32(1)
	b = i32(1)
	println(a == b)
	b = i32(2)
	println(a == b, a != b)
	b = i64(1)
	println(a == b)
	a = "x"
	b = "x"
	println(a == b)
	r1 := &Rect{1, 1}
	a = r1
	b = r1
	println(a == b)
	b = &Rect{1, 1}
	println(a == b)
	a = Rect{1, 2}
	b = Rect{1, 2}
	println(a == b)
	b = Rect{1, 3}
	println(a == b)
	a = [2]i32{1, 2}
	b = [2]i32{1, 2}
	println(a == b)
	// comma-ok failing assertion zero values
	var any interface{} = "str"
	n, ok := any.(i32)
	println(n, ok)
	st, ok := any.(string)
	println(st, ok)
	sh, ok := any.(Shape)
	println(sh == nil, ok)
	// iface to iface
	var sh2 Shape = &Sq{2}
	var any2 interface{} = sh2
	sh3 := any2.(Shape)
	println(sh3.Area())
	ex := sh2.(Extra)
	println(ex.Extra())
	// compare iface with concrete
	var iv interface{} = i32(5)
	println(iv == i32(5), iv == i32(6), iv == "5")
	// embedded interface
	type Both interface {
		Shape
		Extra
	}
	var bo Both = &Sq{4}
	println(bo.Area() + bo.Extra())
	// struct holding iface
	type Holder struct {
		s Shape
		v interface{}
	}
	h := Holder{}
	println(h.s == nil, h.v == nil)
	h.s = &Rect{2, 2}
	h.v = h.s
	h2 := h
	println(h2.s.Area(), h2 == h, h2.v == h.v)
}

