package main

type A struct {
	x i32
}
type B struct {
	x i32
}
type E1 struct {
	msg string
}

func (e *E1) Error()  string { return e.msg }

func find(fail bool)  *E1 {
	if fail {
		return &E1{"bad"}
	}
	return nil
}

func run(fail bool)  error {
	return find(fail)
}

func main() {
	var i1 interface{} = A{1}
	var i2 interface{} = B{1}
	println(i1 == i2)
	var pa *A
	var pb *B
	i1 = pa
	i2 = pb
	println(i1 == i2, i1 == nil, i2 != nil)
	var i3 interface{} = (*A)(nil)
	println(i3 == nil)
	switch i3.(type) {
	case nil:
		println("nil case")
	case *A:
		println("*A case")
	}
	_, ok := i3.(*A)
	println(ok)
	err := run(false)
	if err != nil {
		println("non-nil error (Go semantics)")
	} else {
		println("nil error")
	}
	err = run(true)
	println(err != nil, err.Error())
	var s1 []i32
	var i4 interface{} = s1
	println(i4 == nil)
	var m1 map[string]i32
	var i5 interface{} = m1
	println(i5 == nil)
	var f1 func()
	var i6 interface{} = f1
	println(i6 == nil)
	// interface with [2]string / struct w/ string comparisons
	i1 = [2]string{"a", "b"}
	i2 = [2]string{"a", "b"}
	println(i1 == i2)
	i1 = E1{"x"}
	i2 = E1{"x"}
	println(i1 == i2)
	i1 = 1.5
	i2 = 1.5
	println(i1 == i2)
	i1 = f32(1.5)
	println(i1 == i2)
	i1 = true
	i2 = true
	println(i1 == i2)
	i1 = u8(1)
	i2 = true
	println(i1 == i2)
	i1 = ""
	i2 = ""
	println(i1 == i2)
	i1 = "a"
	i2 = []byte("a")
	println(i1 == i2)
}

