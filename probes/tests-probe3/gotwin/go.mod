module twin

go 1.23
