package main

// 64-bit constants in many contexts
type W struct {
	a i64
	b u64
	c f64
	d [2]i64
}

var gw = W{-5000000000, 18446744073709551615, 1e100, [2]i64{1 << 40, -(1 << 40)}}
var gm = map[i64]u64{1 << 35: 1 << 63, -1: 7}
var gs = []i64{9223372036854775807, -9223372036854775808}
var gi interface{} = i64(1 << 50)
var gu interface{} = u64(1<<64 - 1)
var gws = []W{{a: 1 << 33}, {b: 1 << 34}}
var gp = &W{a: 1 << 36}

func id(v i64)  i64 { return v }
func idu(v u64)  u64 { return v }

func classify(v i64)  string {
	switch v {
	case 1 << 40:
		return "2^40"
	case -(1 << 40):
		return "-2^40"
	case 9223372036854775807:
		return "max"
	case 0:
		return "zero"
	}
	return "other"
}

func main() {
	println(gw.a, gw.b, gw.c > 1e99, gw.d[0], gw.d[1])
	println(gm[1<<35], gm[-1], len(gm))
	println(gs[0], gs[1])
	println(gi.(i64), gu.(u64))
	println(gws[0].a, gws[1].b, gp.a)
	println(id(1<<62), id(-1<<63), idu(1<<63), idu(0xffffffffffffffff))
	println(classify(1<<40), classify(-(1 << 40)), classify(9223372036854775807), classify(0), classify(5))
	var x i64 = 1 << 40
	println(x == 1<<40, x > 1<<39, x < 1<<41, x+(1<<40) == 1<<41, x*4096, x/(1<<20), x%(1<<39+1), x&(1<<40), x|1, x^(1<<40))
	lw := W{a: 0x7fffffffffffffff, b: 0x8000000000000000}
	println(lw.a, lw.b)
	arr := [3]u64{1 << 63, 1<<64 - 1, 1 << 32}
	println(arr[0], arr[1], arr[2])
	var any interface{} = i64(-1 << 63)
	println(any.(i64), any == i64(-1<<63))
	const big = 1 << 100
	println(i64(big >> 60), u64(big>>37) == 1<<63)
	var f f64 = big
	println(f == 1267650600228229401496703205376.0)
	var u32c u32 = 1<<32 - 1
	var i32c i32 = -1 << 31
	println(u32c, i32c, u64(u32c)+1, i64(i32c)-1)
	// hex/octal/binary big
	println(u64(0xFFFF_FFFF_FFFF_FFFF), i64(-0x8000_0000_0000_0000), u64(0b1<<63), u64(0o1777777777777777777777))
	// typed const arithmetic wrap at runtime via variables
	var one u64 = 1
	println(one<<63, (one<<63)<<1, one<<63>>63, (one<<32)*(one<<31), (one<<32)*(one<<32))
	var mone i64 = -1
	println(mone<<63, mone>>63, u64(mone)>>1, i64(u64(mone)>>1)+1)
	// i64 as loop var
	var cnt i32
	for i := i64(1) << 40; i < (1<<40)+5; i++ {
		cnt++
	}
	println(cnt)
	for i := u64(3); i < 4; i-- {
		cnt++
	}
	println(cnt)
}

