package main

type T struct {
	a i32
}

func (t T) Get()  i32 {
	t.a++
	return t.a
}

func main() {
	var t T
	println(t.Get(), t.a)
}

