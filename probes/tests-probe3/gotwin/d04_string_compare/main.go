package main

func main() {
	a, b := "a", "\xff"
	println(a < b, a <= b, a == b, a > b, a >= b)
	c, d := "\x80x", "\x80y"
	println(c < d, c == d)
}

