package main

import "bytes"

func show(ss [][]byte)  string {
	r := "["
	for i, s := range ss {
		if i > 0 {
			r += "|"
		}
		r += string(s)
	}
	return r + "]"
}

func main() {
	hay := []string{"", "a", "abc", "abcabc", "aaa", "héllo wörld", "  padded\t\n", "a,b,,c", "Hello, World", "\xff\xfeab", "aXbXc"}
	needles := []string{"", "a", "b", "bc", "abc", "aa", ",", "X", "z", "\xff", "ö"}
	for _, hs := range hay {
		h := []byte(hs)
		for _, ns := range needles {
			n := []byte(ns)
			println(hs, ns, bytes.Index(h, n), bytes.LastIndex(h, n), bytes.Contains(h, n), bytes.Count(h, n), bytes.HasPrefix(h, n), bytes.HasSuffix(h, n), bytes.Compare(h, n), bytes.Equal(h, n), bytes.IndexAny(h, ns), bytes.LastIndexAny(h, ns), bytes.ContainsAny(h, ns), bytes.EqualFold(h, n))
			println(show(bytes.Split(h, n)), show(bytes.SplitN(h, n, 2)), show(bytes.SplitAfterN(h, n, 2)))
			println(string(bytes.Replace(h, n, []byte("<>"), 1)), string(bytes.ReplaceAll(h, n, []byte("<>"))), string(bytes.TrimPrefix(h, n)), string(bytes.TrimSuffix(h, n)), string(bytes.Trim(h, ns)), string(bytes.TrimLeft(h, ns)), string(bytes.TrimRight(h, ns)))
			b, a, f := bytes.Cut(h, n)
			println(string(b), string(a), f)
		}
		println(string(bytes.ToUpper(h)), string(bytes.ToLower(h)), string(bytes.Title(h)), string(bytes.TrimSpace(h)), show(bytes.Fields(h)), string(bytes.Repeat(h, 2)))
		println(bytes.IndexByte(h, 'b'), bytes.LastIndexByte(h, 'b'), bytes.IndexRune(h, 'ö'), bytes.IndexRune(h, 0xfffd), bytes.ContainsRune(h, 'X'), len(bytes.Runes(h)))
		println(string(bytes.ToValidUTF8(h, []byte("?"))), string(bytes.Clone(h)) == hs)
		println(string(bytes.Map(func(r rune)  rune {
			if r == 'a' {
				return -1
			}
			return r + 1
		}, h)))
	}
	println(string(bytes.Join([][]byte{[]byte("a"), []byte("b")}, []byte(", "))), string(bytes.Join(nil, []byte(","))))
	var buf bytes.Buffer
	buf.WriteString("hello")
	buf.WriteByte(' ')
	buf.Write([]byte("world"))
	buf.WriteRune('世')
	println(buf.String(), buf.Len())
	p := make([]byte, 3)
	n, _ := buf.Read(p)
	println(n, string(p), buf.Len(), buf.String())
	c, _ := buf.ReadByte()
	println(c)
	buf.UnreadByte()
	line, err := buf.ReadString('o')
	println(line, err == nil)
	lb, err := buf.ReadBytes('z')
	println(string(lb), err != nil)
	buf.Reset()
	println(buf.Len())
	for i := 0; i < 1000; i++ {
		buf.WriteString("0123456789")
	}
	println(buf.Len())
	buf.Truncate(5)
	println(buf.String())
	nb := bytes.NewBufferString("abc")
	nb.WriteString("def")
	println(nb.String(), string(nb.Next(2)), string(nb.Bytes()))
	r, sz, _ := bytes.NewBufferString("世x").ReadRune()
	println(i64(r), sz)
	println(bytes.Equal(nil, []byte{}), bytes.Compare(nil, []byte{}), bytes.Compare([]byte("a"), []byte("ab")), bytes.Compare([]byte{200}, []byte{100}))
}

