package main

func main() {
	var z f64
	nan := z / z
	m := map[f64]i32{}
	m[nan] = 1
	m[nan] = 2
	m[1] = 3
	_, ok := m[nan]
	println(len(m), ok, m[1])
	cnt := 0
	for k, v := range m {
		if k != k {
			cnt += int(v)
		}
	}
	println(cnt)
	// clear by deleting in range (common Go idiom)
	m2 := map[i32]i32{}
	for i := i32(0); i < 10; i++ {
		m2[i] = i
	}
	for k := range m2 {
		delete(m2, k)
	}
	println(len(m2))
}

