package main

import "strconv"

func es(e error)  string {
	if e == nil {
		return "<nil>"
	}
	return e.Error()
}

func main() {
	ss := []string{"", "abc", "a\"b", "a'b", "a\\b", "tab\there", "nl\n", "\x00\x01\x7f", "\xff\xfe", "héllo", "世界", " ", "\U0001F600", "\a\b\f\r\v", "`back`", "\u00ad", "\ufeff", "\u2028", "\u00a0", "\u3000", "a\xc3", "\ud7ff", "\U0010ffff", "\u0378", "\u200b", "\u0085"}
	for _, s := range ss {
		println(strconv.Quote(s), strconv.QuoteToASCII(s), strconv.QuoteToGraphic(s), strconv.CanBackquote(s), string(strconv.AppendQuote([]byte("x"), s)))
		q := strconv.Quote(s)
		u, err := strconv.Unquote(q)
		println(u == s, es(err))
	}
	rs := []rune{0, 'a', '\'', '"', '\n', 0x7f, 0xff, 0x4e16, 0x1F600, 0x10ffff, 0x110000, -1, 0xd800, 0xfffd, '\\', 0x2028, 0xad}
	for _, r := range rs {
		println(strconv.QuoteRune(r), strconv.QuoteRuneToASCII(r), strconv.QuoteRuneToGraphic(r), strconv.IsPrint(r), strconv.IsGraphic(r))
	}
	us := []string{`"abc"`, `'a'`, "`raw\\n`", `"a\nb"`, `"\x41世\U0001F600\101"`, `"\q"`, `"abc`, `abc"`, `""`, `''`, `'ab'`, `"\400"`, `"\xZZ"`, `"\ud800"`, `"'"`, `'"'`, `'\''`, `"\'"`, `'\"'`, "\"a\nb\"", "`a`b`", `"\0"`, `"\08"`, `"\u12"`, `x`, ``, `"`, "`a\rb`"}
	for _, s := range us {
		u, err := strconv.Unquote(s)
		println("U", s, u, es(err))
		p, err2 := strconv.QuotedPrefix(s + "tail")
		println("QP", p, es(err2))
	}
	v, mb, tail, err := strconv.UnquoteChar(`世rest`, '"')
	println(i64(v), mb, tail, es(err))
	v, mb, tail, err = strconv.UnquoteChar(`\"rest`, '\'')
	println(i64(v), mb, tail, es(err))
	v, mb, tail, err = strconv.UnquoteChar(`\"rest`, '"')
	println(i64(v), mb, tail, es(err))
	v, mb, tail, err = strconv.UnquoteChar("\xffrest", '"')
	println(i64(v), mb, tail, es(err))
	v, mb, tail, err = strconv.UnquoteChar("érest", '"')
	println(i64(v), mb, tail, es(err))
}

