package main

// Wa-native syntax forms: func T.M, this, x T = v, global, type T :struct
type Stack struct {
	data []i32
	name string
}

func (this *Stack) Push(v i32) {
	this.data = append(this.data, v)
}

func (this *Stack) Pop()  (i32, bool) {
	if len(this.data) == 0 {
		return 0, false
	}
	v := this.data[len(this.data)-1]
	this.data = this.data[:len(this.data)-1]
	return v, true
}

func (this *Stack) Len()  int { return len(this.data) }

func (this *Stack) Reset() {
	this.data = nil
}

type Sizer interface {
	Len()  int
}

type Kind i32

const (
	KA Kind = iota + 1
	KB
)

var counter i32 = 10
var names = []string{"x", "y"}

func bump(n i32)  (old, cur i32) {
	old = counter
	counter += n
	cur = counter
	return
}

func main() {
	var s Stack 
	s.name = "st"
	s.Push(1)
	s.Push(2)
	v, ok := s.Pop()
	println(v, ok, s.Len())
	var sz Sizer = &s
	println(sz.Len())
	s.Reset()
	_, ok = s.Pop()
	println(ok)
	var x i32 = 5
	var y, z i64 = 6, 7
	var f f64 
	var str string = "q"
	var arr [3]u8 
	var p *Stack = &s
	p.Push(9)
	println(x, y, z, f == 0, str, arr[2], s.Len())
	o, c := bump(5)
	println(o, c, counter, names[1], i32(KA), i32(KB))
	fn := func(a i32, b string)  string {
		var r string 
		for i := i32(0); i < a; i++ {
			r += b
		}
		return r
	}
	println(fn(3, "ab"))
}

