package main

func main() {
	var z f64
	nan := z / z
	m := map[f64]i32{}
	m[1] = 3
	m[nan] = 1
	println(len(m), m[1])
	var i interface{} = nan
	println(i == i)
	im := map[interface{}]string{}
	im[1.5] = "one and a half"
	im[nan] = "nan"
	println(len(im), im[1.5])
}

