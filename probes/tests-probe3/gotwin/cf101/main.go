package main

func f(a, b, c i32)  u32 {
	var h u32 = 17
	var i0 i32
	fuel := 3000
	_ = i0
	fuel--
	if fuel < 0 {
		return h + 7
	}
	c ^= a + 45
	fuel--
	if fuel < 0 {
		return h + 7
	}
	if h%4 > 4 {
		fuel--
		if fuel < 0 {
			return h + 7
		}
		if i0%3 < 0 || b&2 != 0 {
			fuel--
			if fuel < 0 {
				return h + 7
			}
			switch b%3 {
			case 3:
				fuel--
				if fuel < 0 {
					return h + 7
				}
				b = b*2 + a
			case 4:
				fuel--
				if fuel < 0 {
					return h + 7
				}
				b = b*5 + a
				fuel--
				if fuel < 0 {
					return h + 7
				}
				h = h*31 + u32(a&1023) + u32(b&255)*7 + 106
				fuel--
				if fuel < 0 {
					return h + 7
				}
				a += 2
			case 2:
				fuel--
				if fuel < 0 {
					return h + 7
				}
				a += 3
				fuel--
				if fuel < 0 {
					return h + 7
				}
				b = b*4 + a
				fuel--
				if fuel < 0 {
					return h + 7
				}
				a += 6
			}
			fuel--
			if fuel < 0 {
				return h + 7
			}
			for i1 := 0; ; i1++ {
				if i1 > 3 {
					break
				}
				i0 = i32(i1)
				fuel--
				if fuel < 0 {
					return h + 7
				}
				c ^= a + 0
				fuel--
				if fuel < 0 {
					return h + 7
				}
				a += 6
			}
			fuel--
			if fuel < 0 {
				return h + 7
			}
			for i2 := 0; i2 < 1; i2++ {
				i0 = i32(i2)
				fuel--
				if fuel < 0 {
					return h + 7
				}
				a += 3
				fuel--
				if fuel < 0 {
					return h + 7
				}
				a += 9
				fuel--
				if fuel < 0 {
					return h + 7
				}
				h = h*31 + u32(a&1023) + u32(b&255)*3 + 1330
				fuel--
				if fuel < 0 {
					return h + 7
				}
				h = h*31 + u32(a&1023) + u32(b&255)*6 + 6144
			}
			fuel--
			if fuel < 0 {
				return h + 7
			}
			c ^= a + 88
		}
		fuel--
		if fuel < 0 {
			return h + 7
		}
		if b%2 == 2 || a&4 != 0 {
			fuel--
			if fuel < 0 {
				return h + 7
			}
			if h%2 == 4 && a&1 != 0 {
				fuel--
				if fuel < 0 {
					return h + 7
				}
				b = b*2 + a
				fuel--
				if fuel < 0 {
					return h + 7
				}
				a += 5
				fuel--
				if fuel < 0 {
					return h + 7
				}
				a += 9
				fuel--
				if fuel < 0 {
					return h + 7
				}
				a += 3
			} else {
				fuel--
				if fuel < 0 {
					return h + 7
				}
				a += 4
				fuel--
				if fuel < 0 {
					return h + 7
				}
				a += 2
				fuel--
				if fuel < 0 {
					return h + 7
				}
				a += 1
				fuel--
				if fuel < 0 {
					return h + 7
				}
				c ^= a + 86
			}
			fuel--
			if fuel < 0 {
				return h + 7
			}
			for i3 := range 2 {
				i0 = i32(i3)
				fuel--
				if fuel < 0 {
					return h + 7
				}
				c ^= a + 38
				fuel--
				if fuel < 0 {
					return h + 7
				}
				h = h*31 + u32(a&1023) + u32(b&255)*4 + 7129
			}
		} else {
			fuel--
			if fuel < 0 {
				return h + 7
			}
			c ^= a + 43
		}
	}
	return h + u32(a&0xff) + u32(b&0xff)<<8 + u32(c&0xff)<<16
}

func main() {
	for a := i32(0); a < 4; a++ {
		for b := i32(0); b < 3; b++ {
			println(f(a, b, a*7+b))
		}
	}
}

