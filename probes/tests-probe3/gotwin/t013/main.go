package main

import "math"

// float arithmetic and conversions (outputs as bit patterns)
func b64(f f64)  u64 { return math.Float64bits(f) }
func b32(f f32)  u32 { return math.Float32bits(f) }

func main() {
	fs := []f64{0, 1, -1, 0.5, -0.5, 1.5, 2.5, -2.5, 1e10, -1e10, 123456789.987, 3.999999, -3.999999, 2147483647, -2147483648, 2147483648.5, 1e18, -1e18, 0.1, 1e-300, 1e300}
	for _, a := range fs {
		for _, b := range fs {
			println("f64", b64(a), b64(b), b64(a+b), b64(a-b), b64(a*b), b64(a/b), a < b, a <= b, a == b, a != b, a > b, a >= b)
		}
		println("f64neg", b64(-a), b32(f32(a)), b64(f64(f32(a))))
		if a > -9e18 && a < 9e18 {
			println("toi64", i64(a))
		}
		if a > -2147483649 && a < 2147483648 {
			println("toi32", i32(a))
		}
		x := f32(a)
		println("f32", b32(x), b32(x+x), b32(x*x), b32(x/3), b32(-x), b32(x-0.25))
	}
	is := []i64{0, 1, -1, 16777216, 16777217, -16777217, 9007199254740992, 9007199254740993, -9007199254740993, 9223372036854775807, -9223372036854775808, 2147483647}
	for _, i := range is {
		println("fromi64", b64(f64(i)), b32(f32(i)), b64(f64(i32(i))), b32(f32(i32(i))), b64(f64(u32(i))), b32(f32(u32(i))), b64(f64(u64(i))), b32(f32(u64(i))), b64(f64(u8(i))), b64(f64(u16(i))))
	}
	nan := math.NaN()
	inf := math.Inf(1)
	println(nan == nan, nan != nan, nan < 1, nan > 1, nan <= nan, nan >= nan, inf > 1e308, -inf < inf, b64(inf-inf) != b64(inf))
	var z f64 = 0
	println(b64(1/z), b64(-1/z), b64(-z), b64(z*-1))
	// const float exprs
	const c = 1.0 / 3.0
	var cf f32 = c
	var cd f64 = c
	println(b32(cf), b64(cd), b64(c*3))
	var h f64 = 7
	println(i32(h/2), b64(h/2))
}

