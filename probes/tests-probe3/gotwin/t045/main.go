package main

type State func(n i32)  (State, i32)
func stA(n i32)  (State, i32) { return stB, n + 1 }
func stB(n i32)  (State, i32) { return nil, n * 10 }
func main() {
	var st State = stA
	v := i32(1)
	for st != nil {
		st, v = st(v)
	}
	println(v)
}

