package main

import "container/heap"
import "container/list"
import "container/ring"
import "bufio"
import "strings"
import "bytes"

type IntHeap []int

func (h *IntHeap) Len()  int { return len(*h) }
func (h *IntHeap) Less(i, j int)  bool { return (*h)[i] < (*h)[j] }
func (h *IntHeap) Swap(i, j int) { (*h)[i], (*h)[j] = (*h)[j], (*h)[i] }
func (h *IntHeap) Push(x interface{}) { *h = append(*h, x.(int)) }
func (h *IntHeap) Pop()  interface{} {
	old := *h
	n := len(old)
	x := old[n-1]
	*h = old[0 : n-1]
	return x
}

func main() {
	h := &IntHeap{5, 2, 8}
	heap.Init(h)
	heap.Push(h, 3)
	heap.Push(h, 1)
	heap.Push(h, 9)


	heap.Remove(h, 3)
	for h.Len() > 0 {
		print(heap.Pop(h).(int), " ")
	}
	println()
	l := list.New()
	e4 := l.PushBack(4)
	e1 := l.PushFront(1)
	l.InsertBefore(3, e4)
	l.InsertAfter(2, e1)
	l.MoveToBack(e1)
	l.Remove(e4)
	for e := l.Front(); e != nil; e = e.Next() {
		print(e.Value.(int), " ")
	}
	println(l.Len())
	for e := l.Back(); e != nil; e = e.Prev() {
		print(e.Value.(int), " ")
	}
	println()
	r := ring.New(5)
	n := r.Len()
	for i := 0; i < n; i++ {
		r.Value = i
		r = r.Next()
	}
	sum := 0
	r.Do(func(p interface{}) { sum += p.(int) })
	r = r.Move(2)
	println(sum, r.Value.(int), r.Prev().Value.(int))
	sc := bufio.NewScanner(strings.NewReader("line one\nline two\r\n\nlast"))
	for sc.Scan() {
		print("[", sc.Text(), "]")
	}
	println()
	sc = bufio.NewScanner(strings.NewReader("  the quick\tbrown\n fox  "))
	sc.Split(bufio.ScanWords)
	cnt := 0
	for sc.Scan() {
		cnt++
		print(sc.Text(), ",")
	}
	println(cnt)
	var buf bytes.Buffer
	w := bufio.NewWriter(&buf)
	w.WriteString("hello ")
	w.WriteByte('w')
	w.WriteRune('ö')
	w.Write([]byte("rld"))
	println(buf.Len(), w.Buffered())
	w.Flush()
	println(buf.String())
	br := bufio.NewReader(strings.NewReader("abc\ndef\nxyz"))
	s, err := br.ReadString('\n')
	println(s == "abc\n", err == nil)
	c, _ := br.ReadByte()
	br.UnreadByte()
	pk, _ := br.Peek(2)
	println(c, string(pk))
	ln, isP, err := br.ReadLine()
	println(string(ln), isP, err == nil)
	s, err = br.ReadString('\n')
	println(s, err != nil)
}

