package main

import "strings"

func show(ss []string)  string {
	r := "["
	for i, s := range ss {
		if i > 0 {
			r += "|"
		}
		r += s
	}
	if ss == nil {
		return r + "]nil"
	}
	return r + "]"
}

func main() {
	hay := []string{"", "a", "abc", "abcabc", "aaa", "héllo wörld", "世界世", "  padded\t\n", "a,b,,c", "Hello, World", "\xff\xfeab", "aXbXc", "ababab"}
	needles := []string{"", "a", "b", "bc", "abc", "aa", "ö", "世", ",", "X", "z", "ab", "\xff"}
	for _, h := range hay {
		for _, n := range needles {
			println(h, n, strings.Index(h, n), strings.LastIndex(h, n), strings.Contains(h, n), strings.Count(h, n), strings.HasPrefix(h, n), strings.HasSuffix(h, n), strings.Compare(h, n), strings.IndexAny(h, n), strings.LastIndexAny(h, n), strings.ContainsAny(h, n), strings.EqualFold(h, n))
			println(show(strings.Split(h, n)), show(strings.SplitN(h, n, 2)), show(strings.SplitAfter(h, n)), show(strings.SplitAfterN(h, n, 2)), show(strings.SplitN(h, n, 0)), show(strings.SplitN(h, n, -1)))
			println(strings.Replace(h, n, "<>", 1), strings.Replace(h, n, "<>", -1), strings.ReplaceAll(h, n, ""), strings.TrimPrefix(h, n), strings.TrimSuffix(h, n), strings.Trim(h, n), strings.TrimLeft(h, n), strings.TrimRight(h, n))
			b, a, f := strings.Cut(h, n)
			println(b, a, f)
			a2, f2 := strings.CutPrefix(h, n)
			a3, f3 := strings.CutSuffix(h, n)
			println(a2, f2, a3, f3)
		}
		println(strings.ToUpper(h), strings.ToLower(h), strings.Title(h), strings.ToTitle(h), strings.TrimSpace(h), show(strings.Fields(h)), strings.Repeat(h, 3), strings.Repeat(h, 0))
		println(strings.IndexByte(h, 'b'), strings.LastIndexByte(h, 'b'), strings.IndexRune(h, 'ö'), strings.IndexRune(h, 0xfffd), strings.IndexRune(h, -1), strings.ContainsRune(h, '界'))
		println(strings.ToValidUTF8(h, "?"), strings.Clone(h) == h)
		println(strings.Map(func(r rune)  rune {
			if r == 'a' {
				return -1
			}
			if r == 'b' {
				return '世'
			}
			return r
		}, h))
		println(strings.IndexFunc(h, func(r rune)  bool { return r > 127 }), strings.LastIndexFunc(h, func(r rune)  bool { return r > 127 }), strings.TrimFunc(h, func(r rune)  bool { return r == 'a' || r == ' ' }), show(strings.FieldsFunc(h, func(r rune)  bool { return r == ',' || r == 'X' })), strings.ContainsFunc(h, func(r rune)  bool { return r == 'X' }))
		println(strings.TrimLeftFunc(h, func(r rune)  bool { return r < 'c' }), strings.TrimRightFunc(h, func(r rune)  bool { return r < 'd' }))
	}
	println(strings.Join(nil, ","), strings.Join([]string{"a"}, ","), strings.Join([]string{"a", "b", "c"}, ", "), strings.Join([]string{"", ""}, "-"))
	println(strings.EqualFold("Go", "GO"), strings.EqualFold("σ", "Σ"), strings.EqualFold("ß", "SS"), strings.EqualFold("K", "K"), strings.EqualFold("héllo", "HÉLLO"))
	println(strings.ToUpper("ǆ"), strings.ToTitle("ǆ"), strings.ToLower("İ"), strings.ToUpper("ß"), strings.ToUpper("ÿ"), strings.ToLower("ÀÉÎÕÜ"), strings.Title("hello wOrld-foo bar_baz"))
	r := strings.NewReplacer("a", "1", "b", "2", "abc", "X")
	println(r.Replace("abcab"), r.Replace(""), r.Replace("zzz"))
	r2 := strings.NewReplacer("<", "&lt;", ">", "&gt;", "&", "&amp;")
	println(r2.Replace("<a & b>"))
	r3 := strings.NewReplacer("", "-")
	println(r3.Replace("abc"))
	r4 := strings.NewReplacer("aaa", "3", "aa", "2", "a", "1", "i", "i", "longerst", "rem", "", "X")
	println(r4.Replace("aaaa longerst i"))
	var sb strings.Builder
	sb.WriteString("abc")
	sb.WriteByte('d')
	sb.WriteRune('世')
	sb.Write([]byte{'!'})
	println(sb.String(), sb.Len())
	sb.Reset()
	println(sb.String() == "", sb.Len())
	rd := strings.NewReader("héllo")
	println(rd.Len(), rd.Size())
	ch, sz, _ := rd.ReadRune()
	println(i64(ch), sz)
	ch, sz, _ = rd.ReadRune()
	println(i64(ch), sz, rd.Len())
	rd.UnreadRune()
	bt, _ := rd.ReadByte()
	println(bt)
	buf := make([]byte, 10)
	n, err := rd.Read(buf)
	println(n, err == nil, string(buf[:n]))
	n, err = rd.Read(buf)
	println(n, err != nil)
	println(strings.Count("cheese", "e"), strings.Count("five", ""), strings.Count("世界", ""), strings.LastIndex("go gopher", "go"), strings.LastIndex("go", ""), strings.Index("chicken", "ken"), strings.IndexAny("golang", "gy"), strings.LastIndexAny("go gopher", "ordent"))
	long := strings.Repeat("abcdefghij", 20)
	println(strings.Index(long, "jabcdefghija"), strings.Index(long, "jabcdefghijb"), strings.LastIndex(long, "abcdefghijabcdefghij"), strings.Count(long, "ja"), strings.Index(long+"XYZ", "XYZ"), strings.Index(long, strings.Repeat("abcdefghij", 7)+"X"))
}

