package main

// narrow unsigned arithmetic inside larger expressions
type S struct {
	a u8
	b u16
	c [3]u8
}

var gu8 u8 = 250
var gu16 u16 = 65530

func addu8(a, b u8)  u8 { return a + b }

func main() {
	var a u8 = 200
	var b u8 = 100
	println((a+b)/2, (a*b)>>4, a+b > a, a+b < b, -a/3, ^a>>1, (a-b-b-b)%7, u16(a)*u16(b), u32(a+b), i32(a+b), u64(a*b), f64(a+b) == 44.0)
	println((a+b) == 44, u32(a)+u32(b), a-b-b-b, (b-a)>>2, (a<<1)>>1, (a<<1)/2, i64(a<<2), a*a*a, a*a*a/3)
	var c u16 = 60000
	var d u16 = 10000
	println((c+d)/2, (c*d)>>4, c+d > c, -c/3, ^c>>1, u32(c+d), u64(c*d), (c<<3)>>3, (d-c)/7, c*c%1000)
	var s S
	s.a = 255
	s.a++
	s.b = 65535
	s.b += 2
	s.c[1] = 128
	s.c[1] *= 2
	s.c[2] -= 1
	println(s.a, s.b, s.c[1], s.c[2])
	s.a--
	s.b -= 3
	println(s.a, s.b, s.a/16, s.b/256)
	gu8 += 10
	gu16 += 10
	println(gu8, gu16, gu8*gu8, gu16*gu16)
	arr := []u8{250, 5}
	arr[0] += arr[1] * 2
	println(arr[0], arr[0]>>1)
	arr[1] -= 6
	println(arr[1], arr[1]/2, u32(arr[1])+1)
	println(addu8(200, 100), addu8(200, 100)/2, u32(addu8(255, 1)))
	m := map[string]u8{"k": 255}
	m["k"]++
	m["j"]--
	println(m["k"], m["j"])
	var p *u8 = &a
	*p += 100
	println(a, *p/2)
	// shifts of narrow with variable counts
	for sh := u32(0); sh < 8; sh++ {
		var x u8 = 0x81
		var y u16 = 0x8001
		print((x<<sh)>>sh, " ", (x>>sh)<<sh, " ", (y<<sh)>>sh, " ", u32(x<<sh), " ", u32(y<<(sh+8)), " ")
	}
	println()
	// compound assignment operators
	var x i32 = 100
	x <<= 3
	x |= 5
	x &^= 4
	x %= 37
	x ^= -1
	x >>= 1
	println(x)
	var u u32 = 0xdeadbeef
	u >>= 4
	u &= 0xffff00
	u *= 0x10001
	u /= 3
	u -= 0xffffffff
	println(u)
	var l i64 = -1
	l <<= 40
	l /= 1000
	l %= 999983
	println(l)
	// conversions sign extension from narrow after arithmetic
	var n8 u8 = 0x80
	println(i32(n8), i64(n8), i32(n8+n8), i64(n8*2+1), i32(u16(n8)<<8), i64(u16(n8)<<9))
	// unsigned division & comparison with high bit
	var hi u32 = 0x80000000
	println(hi/3, hi%7, hi > 1, hi>>31, i32(hi), i64(hi), i64(i32(hi)), u64(hi)<<1, f64(hi) == 2147483648.0)
	var h64 u64 = 0x8000000000000000
	println(h64/3, h64%7, h64 > 1, h64>>63, i64(h64), f64(h64) == 9223372036854775808.0)
	// mixed int/uint (32-bit)
	var ii int = -5
	var uu uint = uint(ii)
	println(ii/2, ii%3, ii>>1, uu, uu/2, uu>>28, int(uu))
	// increments on boundaries
	var i8max i32 = 2147483647
	i8max++
	println(i8max)
	var u0 u32 = 0
	u0--
	println(u0)
	var u640 u64 = 0
	u640--
	println(u640)
}

