package main

// strings: indexing, slicing, concat, comparison, conversions, range
func main() {
	s := "héllo, 世界!\x00\xff"
	println(len(s), s[0], s[1], s[2], s[len(s)-1])
	println(s[1:3], s[:5], s[7:], s[:], len(s[3:3]))
	t := s + "abc" + s[2:4]
	println(t, len(t))
	for i, r := range s {
		println(i, i64(r))
	}
	bs := []byte(s)
	println(len(bs), bs[1], bs[len(bs)-1])
	bs[0] = 'H'
	println(string(bs), s)
	rs := []rune(s)
	println(len(rs), i64(rs[1]), i64(rs[8]), i64(rs[len(rs)-1]))
	rs[1] = 'e'
	println(string(rs))
	println(string(rune(0x4e16)), string(rune(65)), string(rune(-1)), string(rune(0x10ffff)), string(rune(0x110000)), string(rune(0xd800)))
	strs := []string{"", "a", "ab", "abc", "b", "A", "a\x00", "\xff", "世", "世界"}
	for _, a := range strs {
		for _, b := range strs {
			println(a < b, a <= b, a == b, a != b, a > b, a >= b)
		}
	}
	var e string
	println(e == "", len(e), e+"x")
	var acc string
	for i := 0; i < 50; i++ {
		acc += string(rune('a' + i%26))
	}
	println(acc, len(acc))
	// string from byte slice slices
	b2 := []byte("hello world")
	println(string(b2[3:8]), string(b2[:0]) == "")
	// multi-byte range with invalid utf8
	for i, r := range "a\xffb\xc0\xafc\xe4\xb8" {
		println(i, i64(r))
	}
	// compare string(bytes) and string
	println(string([]byte{104, 105}) == "hi")
	// index of constant strings
	const cs = "constant"
	println(cs[3], len(cs), cs[2:5])
	// raw string
	println(`raw\n"q"`)
	x := "abc"
	y := x
	x += "d"
	println(x, y)
}

