package main

func main() {
	var n8 u8 = 3
	for i := range n8 {
		print(i, " ")
	}
	println()
	var n64 i64 = 1<<33 - 1
	var c i32
	for i := range n64 {
		if i > 3 {
			break
		}
		c++
	}
	println(c)
	var neg i32 = -3
	for range neg {
		println("never")
	}
	const k = 4
	s := 0
	for i := range k {
		s += i
	}
	println(s)
	// range evaluates count once
	lim := 3
	for i := range lim {
		lim = 10
		print(i, " ")
	}
	println(lim)
	// modifying loop var in body does not affect iteration
	for i := range 3 {
		print(i, " ")
		i += 10
	}
	println()
	// range over array pointer, and string with index only
	arr := [3]i32{7, 8, 9}
	for i := range &arr {
		print(i, " ")
	}
	for i, v := range &arr {
		arr[2] = 100
		print(i, v, " ")
	}
	println()
	var u u16 = 65535
	cnt := 0
	for i := range u {
		if i == 65534 {
			cnt++
		}
	}
	println(cnt)
}

