package main

import "strings"
import "bytes"

func main() {
	println(strings.Count("é", "\xc3"), strings.Count("ÿ", "\xff"), strings.Count("aéa", "a"), strings.Count("\xc3\xc3", "\xc3"))
	println(bytes.Count([]byte("é"), []byte("\xc3")), bytes.Count([]byte("ÿ"), []byte("\xff")))
	println(strings.Compare("a", "\xff"), strings.Compare("é", "\xc3"), "é" > "\xc3", "a" < "\xff")
	println(strings.Index("é", "\xa9"), strings.IndexByte("é", 0xa9), strings.LastIndexByte("é", 0xc3), strings.Contains("é", "\xc3"))
	println(strings.Replace("ÿy", "\xff", "X", -1), strings.Replace("éa", "\xc3", "X", -1))
	ss := strings.Split("aÿbÿc", "\xbf")
	println(len(ss))
}

