package main

// loop variable capture semantics and misc
type Item struct {
	name string
	tags []string
	sub *Item
}

func build(n i32)  []Item {
	var out []Item
	for i := i32(0); i < n; i++ {
		it := Item{name: "item"}
		for j := i32(0); j < i%4; j++ {
			it.tags = append(it.tags, "t")
		}
		if i > 0 {
			it.sub = &out[i-1]
		}
		out = append(out, it)
	}
	return out
}

func main() {
	var fs []func()  int
	for i := 0; i < 3; i++ {
		fs = append(fs, func()  int { return i })
	}
	for _, f := range fs {
		print(f(), " ")
	}
	println()
	var gs []func()  i32
	for _, v := range []i32{10, 20, 30} {
		gs = append(gs, func()  i32 { return v })
	}
	for _, g := range gs {
		print(g(), " ")
	}
	println()
	// pointers to loop vars
	var ps []*int
	for i := 0; i < 3; i++ {
		ps = append(ps, &i)
	}
	println(*ps[0], *ps[1], *ps[2])
	// allocation stress w/ refcounts
	total := 0
	for round := 0; round < 50; round++ {
		items := build(40)
		for _, it := range items {
			total += len(it.tags) + len(it.name)
			if it.sub != nil {
				total += len(it.sub.tags)
			}
		}
	}
	println(total)
	// big string building
	s := ""
	for i := 0; i < 2000; i++ {
		s += "ab"
	}
	println(len(s), s[3999], s[:4])
	// map with struct values: copy out, modify, store back
	m := map[string]Item{}
	m["a"] = Item{name: "A"}
	it := m["a"]
	it.name = "B"
	println(m["a"].name)
	m["a"] = it
	println(m["a"].name)
	// slice of slices growth
	grid := make([][]i32, 5)
	for i := range grid {
		grid[i] = make([]i32, 5)
		for j := range grid[i] {
			grid[i][j] = i32(i * j)
		}
	}
	println(grid[4][4], grid[2][3], len(grid[0]))
	// large local array
	var big [1000]i32
	for i := range big {
		big[i] = i32(i)
	}
	var sum i32
	for _, v := range big {
		sum += v
	}
	println(sum)
	// deep recursion
	println(depth(5000))
}

func depth(n i32)  i32 {
	if n == 0 {
		return 0
	}
	return 1 + depth(n-1)
}

