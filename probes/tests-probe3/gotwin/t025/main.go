package main

func main() {
	a := [3]i32{1, 2, 3}
	i := 5
	println("before")
	println(a[i%6])
	println("after")
}

