package main

import "math"

func b(f f64)  u64 { return math.Float64bits(f) }

func main() {
	xs := []f64{0, math.Copysign(0, -1), 1, -1, 0.5, -0.5, 2, 3, 10, 0.1, 1e-10, 1e10, 1e100, 1e-100, 1e300, 1e-300, 5e-324, 1.7976931348623157e308, 2.718281828459045, 3.141592653589793, 1.5707963267948966, 100.5, -7.25, 27, 64, 1024, 0.001, 123456.789, math.Inf(1), math.Inf(-1), math.NaN()}
	for _, x := range xs {
		println("x", b(x))
		println(b(math.Abs(x)), b(math.Sqrt(x)), b(math.Cbrt(x)), math.IsNaN(x), math.IsInf(x, 0), math.IsInf(x, 1), math.IsInf(x, -1), math.Signbit(x))
		println(b(math.Exp(x)), b(math.Exp2(x)), b(math.Log(x)))
		if x > -1e6 && x < 1e6 {
			println(b(math.Sin(x)), b(math.Cos(x)))
		} else {
			println("skip")
		}
		fr, ex := math.Frexp(x)
		ip, fp := math.Modf(x)
		println(b(fr), ex, b(ip), b(fp), b(math.Ldexp(x, 3)), b(math.Ldexp(x, -1080)), b(math.Ldexp(x, 2000)))
		for _, y := range []f64{0, 1, -1, 2, 0.5, -0.5, 3, -2, 10, 1e10, math.Inf(1), math.Inf(-1), math.NaN(), 1.0 / 3} {
			println(b(math.Pow(x, y)), b(math.Hypot(x, y)), b(math.Max(x, y)), b(math.Min(x, y)), b(math.Dim(x, y)), b(math.Copysign(x, y)))
		}
	}
	println(b(math.Float64frombits(0x7ff8000000000001)), math.Float32bits(math.Float32frombits(0x7fc00000)), math.Float32bits(f32(0.1)), b(math.Pi), b(math.E), b(math.MaxFloat64), b(math.SmallestNonzeroFloat64), math.MaxInt32, math.MinInt32, u32(math.MaxUint32))
	println(i64(math.MaxInt64), i64(math.MinInt64), b(math.Sqrt2), b(math.Ln2), b(math.MaxFloat32))
}

