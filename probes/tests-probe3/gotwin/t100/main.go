package main

import "strconv"

func es(e error)  string {
	if e == nil {
		return "<nil>"
	}
	return e.Error()
}

func main() {
	ints := []i64{0, 1, -1, 9, 10, 99, 100, 255, 256, -255, 2147483647, -2147483648, 4294967296, 9223372036854775807, -9223372036854775808, 1234567890123456789}
	for _, v := range ints {
		for _, base := range []int{2, 8, 10, 16, 36, 7} {
			print(strconv.FormatInt(v, base), " ", strconv.FormatUint(u64(v), base), " ")
		}
		println(strconv.Itoa(int(i32(v))), string(strconv.AppendInt([]byte("x"), v, 10)), string(strconv.AppendUint(nil, u64(v), 16)))
	}
	as := []string{"0", "1", "-1", "+1", "", " 1", "1 ", "abc", "12a", "2147483647", "2147483648", "-2147483648", "-2147483649", "00012", "-0", "+", "-", "1_000", "0x10", "９", "99999999999999999999"}
	for _, s := range as {
		v, err := strconv.Atoi(s)
		println("Atoi", s, v, es(err))
	}
	ps := []string{"0", "-1", "7f", "7F", "80", "-80", "-81", "ff", "0x7f", "0X1F", "0b101", "0o17", "017", "1_000", "0x_1f", "_1", "1__0", "z", "Zz", "9223372036854775807", "9223372036854775808", "-9223372036854775808", "-9223372036854775809", "18446744073709551615", "18446744073709551616", "+5", "", "-", "0x", "1e3"}
	for _, s := range ps {
		for _, base := range []int{0, 10, 16, 2, 36} {
			for _, bs := range []int{0, 8, 16, 32, 64} {
				v, err := strconv.ParseInt(s, base, bs)
				u, err2 := strconv.ParseUint(s, base, bs)
				println("P", s, base, bs, v, es(err), u, es(err2))
			}
		}
	}
	_, err := strconv.ParseInt("1", 1, 64)
	println(es(err))
	_, err = strconv.ParseInt("1", 37, 64)
	println(es(err))
	_, err = strconv.ParseInt("1", 10, 65)
	println(es(err))
	bs := []string{"1", "t", "T", "TRUE", "true", "True", "0", "f", "F", "FALSE", "false", "False", "", "yes", "tRUE"}
	for _, s := range bs {
		b, err := strconv.ParseBool(s)
		println(s, b, es(err))
	}
	println(strconv.FormatBool(true), strconv.FormatBool(false), string(strconv.AppendBool([]byte("a"), true)))
	// error unwrapping
	_, err = strconv.Atoi("x")
	if ne, ok := err.(*strconv.NumError); ok {
		println(ne.Func, ne.Num, ne.Err == strconv.ErrSyntax, ne.Err == strconv.ErrRange)
	}
	_, err = strconv.ParseInt("999", 10, 8)
	if ne, ok := err.(*strconv.NumError); ok {
		println(ne.Func, ne.Num, ne.Err == strconv.ErrSyntax, ne.Err == strconv.ErrRange)
	}
}

