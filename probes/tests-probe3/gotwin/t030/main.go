package main

// structs: value semantics, comparison, embedding, pointers
type P struct {
	x, y i32
}

type Named struct {
	name string
	p P
	tags [2]u8
}

type Base struct {
	id i32
}

func (b *Base) ID()  i32 { return b.id }
func (b *Base) SetID(v i32) { b.id = v }

type Mid struct {
	Base
	m i64
}

type Top struct {
	Mid
	*P
	id2 i32
}

func modify(n Named)  Named {
	n.name = "changed"
	n.p.x = 100
	n.tags[0] = 9
	return n
}

func modp(n *Named) {
	n.p.y = 55
}

func main() {
	a := Named{name: "a", p: P{1, 2}, tags: [2]u8{3, 4}}
	b := a
	b.p.x = 10
	println(a.p.x, b.p.x, a == b)
	b.p.x = 1
	println(a == b, a != b)
	c := modify(a)
	println(a.name, a.p.x, a.tags[0], c.name, c.p.x, c.tags[0])
	modp(&a)
	println(a.p.y)
	pa := &a
	pa.p.x = 77
	pb := pa
	pb.name = "viaptr"
	println(a.p.x, a.name, pa == pb, pa == &a)
	cp := *pa
	cp.name = "copy"
	println(a.name, cp.name)
	*pa = Named{}
	println(a.name == "", a.p.x, a.tags[1])

	var t Top
	t.id = 5
	t.m = 1 << 40
	t.P = &P{3, 4}
	println(t.ID(), t.Mid.Base.id, t.Mid.id, t.x, t.P.y, t.m)
	t.SetID(9)
	println(t.id, t.Base.ID())
	t2 := t
	t2.SetID(10)
	t2.x = 30
	println(t.id, t2.id, t.x, t2.x)

	// pointer to field, element
	q := &t.Mid.m
	*q = 42
	println(t.m)
	arr := [3]P{{1, 2}, {3, 4}, {5, 6}}
	pe := &arr[1]
	pe.x = 33
	println(arr[1].x)
	sl := []P{{1, 2}, {3, 4}}
	ps := &sl[0]
	sl = append(sl, P{7, 8})
	ps.x = 99
	println(sl[0].x == 99 || sl[0].x == 1)
	// new
	np := new(P)
	np.x = 4
	println(np.x, np.y, *np == P{4, 0})
	// pointer to pointer
	pp := &np
	(*pp).y = 6
	println(np.y, (**pp).x)
	// anonymous struct
	anon := struct {
		a i32
		b string
	}{1, "z"}
	anon2 := anon
	anon2.a = 2
	println(anon.a, anon2.a, anon.b)
	// struct with zero-size / empty
	// nested composite literal with & 
	list := []*P{{1, 2}, {3, 4}}
	println(list[1].y)
	mm := map[string]P{"a": {1, 2}}
	println(mm["a"].y, mm["b"].x)
	// swap
	x, y := 1, 2
	x, y = y, x
	println(x, y)
	sl2 := []i32{1, 2, 3}
	i := 0
	i, sl2[i] = 2, 50
	println(i, sl2[0], sl2[2])
}

