package main

func main() {
	var a i32 = -2147483648
	var m i32 = -1
	println(a % m)
	println(a / m)
}

