package main

// maps
type K struct {
	a i32
	b string
}

func main() {
	m := map[string]i32{}
	m["a"] = 1
	m["b"] = 2
	m["a"] = 3
	println(len(m), m["a"], m["b"], m["zz"])
	v, ok := m["zz"]
	println(v, ok)
	v, ok = m["a"]
	println(v, ok)
	delete(m, "a")
	delete(m, "nope")
	println(len(m))
	_, ok = m["a"]
	println(ok)
	var nm map[string]i32
	println(nm == nil, len(nm), nm["x"])
	delete(nm, "x")
	n := 0
	for range nm {
		n++
	}
	println(n)
	// int keys, many
	im := make(map[i32]i64)
	for i := i32(0); i < 1000; i++ {
		im[i*7919%1009] = i64(i) * 3
	}
	println(len(im))
	var sum i64
	cnt := 0
	for k, v := range im {
		sum += i64(k) + v
		cnt++
	}
	println(sum, cnt)
	for i := i32(0); i < 1000; i += 2 {
		delete(im, i*7919%1009)
	}
	println(len(im))
	sum = 0
	for k, v := range im {
		sum += i64(k) + v
	}
	println(sum)
	// struct keys
	sm := map[K]string{}
	sm[K{1, "x"}] = "one"
	sm[K{1, "y"}] = "two"
	sm[K{1, "x"}] = "uno"
	println(len(sm), sm[K{1, "x"}], sm[K{1, "y"}], sm[K{2, "x"}] == "")
	// array keys
	am := map[[2]i32]i32{}
	am[[2]i32{1, 2}] = 5
	am[[2]i32{2, 1}] = 6
	am[[2]i32{1, 2}]++
	println(len(am), am[[2]i32{1, 2}], am[[2]i32{2, 1}])
	// map value struct, slices
	vm := map[i32][]i32{}
	vm[1] = append(vm[1], 5)
	vm[1] = append(vm[1], 6)
	println(len(vm[1]), len(vm[2]), vm[1][1])
	// map of maps
	mm := map[string]map[string]i32{}
	mm["a"] = map[string]i32{}
	mm["a"]["b"] = 4
	println(mm["a"]["b"], mm["x"]["y"])
	// increment ops
	cm := map[string]i32{}
	cm["k"]++
	cm["k"] += 5
	cm["j"] -= 2
	println(cm["k"], cm["j"])
	// float keys
	fm := map[f64]i32{}
	fm[1.5] = 1
	fm[1.5]++
	var zero f64
	fm[zero] = 7
	fm[-zero] = 8
	println(len(fm), fm[1.5], fm[0])
	// bool keys
	bm := map[bool]string{true: "t", false: "f"}
	println(bm[true], bm[false], len(bm))
	// u64 / i64 keys
	um := map[u64]i32{}
	um[1<<63] = 1
	um[1<<63+1] = 2
	um[1] = 3
	println(um[1<<63], um[1<<63+1], um[1], len(um))
	// interface keys
	xm := map[interface{}]i32{}
	xm[1] = 1
	xm["1"] = 2
	xm[i64(1)] = 3
	xm[K{1, "x"}] = 4
	println(len(xm), xm[1], xm["1"], xm[i64(1)], xm[K{1, "x"}], xm[i32(1)])
	// delete during iteration
	dm := map[i32]i32{}
	for i := i32(0); i < 100; i++ {
		dm[i] = i
	}
	for k := range dm {
		if k%2 == 0 {
			delete(dm, k)
		}
	}
	println(len(dm))
	// map aliasing
	m1 := map[string]i32{"a": 1}
	m2 := m1
	m2["b"] = 2
	println(len(m1))
	// pointer keys
	p1, p2 := new(i32), new(i32)
	pm := map[*i32]i32{p1: 1, p2: 2}
	println(pm[p1], pm[p2], len(pm))
	// literal with dup-free computed keys
	s := "k"
	lm := map[string]i32{s + "1": 1, s + "2": 2}
	println(lm["k1"] + lm["k2"])
}

