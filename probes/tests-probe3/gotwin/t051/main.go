package main

type Shape interface {
	Area()  i32
}

type Extra interface {
	Extra()  i32
}

type Both interface {
	Shape
	Extra
}

type Sq struct {
	s i32
}

func (r *Sq) Area()  i32 { return r.s * r.s }
func (r *Sq) Extra()  i32 { return 7 }

func main() {
	var bo Both = &Sq{4}
	println(bo.Area() + bo.Extra())
	var sh4 Shape = bo
	println(sh4.Area())
}

