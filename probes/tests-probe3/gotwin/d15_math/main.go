package main

import "math"

func main() {
	var zero f64
	println(math.Signbit(math.Abs(zero)), math.Signbit(math.Sin(-zero)))
	println(math.IsInf(math.Hypot(math.Inf(1), math.NaN()), 1), math.IsNaN(math.Hypot(0, math.NaN())))
	println(i64(math.Sin(1e10) * 1e9))
	println(math.IsNaN(math.Sin(math.Inf(1))))
	println(math.Sin(1e100) <= 1)
}

