package main

type E struct {
}

func main() {
	var a, b E
	println(a == b)
}

