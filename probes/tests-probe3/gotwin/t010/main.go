package main

// integer arithmetic at u8/u16/u32/u64/i32/i64: wrap, div, rem, shifts
func main() {
	u8s := []u8{0, 1, 2, 7, 127, 128, 200, 254, 255}
	for _, a := range u8s {
		for _, b := range u8s {
			var q, r u8
			if b != 0 {
				q = a / b
				r = a % b
			}
			println("u8", a, b, a+b, a-b, a*b, q, r, a&b, a|b, a^b, a&^b, ^a, -a)
		}
		for s := u8(0); s < 8; s++ {
			println("u8sh", a, s, a<<s, a>>s)
		}
	}
	u16s := []u16{0, 1, 255, 256, 32767, 32768, 65534, 65535}
	for _, a := range u16s {
		for _, b := range u16s {
			var q, r u16
			if b != 0 {
				q = a / b
				r = a % b
			}
			println("u16", a, b, a+b, a-b, a*b, q, r, a&b, a|b, a^b, a&^b, ^a, -a)
		}
		for s := u16(0); s < 16; s++ {
			println("u16sh", a, s, a<<s, a>>s)
		}
	}
	i32s := []i32{0, 1, -1, 2, -2, 7, -7, 2147483647, -2147483648, 65536, -65536, 46341}
	for _, a := range i32s {
		for _, b := range i32s {
			var q, r i32
			if b != 0 && !(a == -2147483648 && b == -1) {
				q = a / b
				r = a % b
			}
			println("i32", a, b, a+b, a-b, a*b, q, r, a&b, a|b, a^b, a&^b, ^a, -a, a < b, a <= b, a == b)
		}
		for s := u32(0); s < 32; s += 5 {
			println("i32sh", a, s, a<<s, a>>s)
		}
	}
	u32s := []u32{0, 1, 2, 7, 2147483647, 2147483648, 4294967295, 65536, 65537}
	for _, a := range u32s {
		for _, b := range u32s {
			var q, r u32
			if b != 0 {
				q = a / b
				r = a % b
			}
			println("u32", a, b, a+b, a-b, a*b, q, r, a&b, a|b, a^b, a&^b, ^a, -a, a < b, a >= b)
		}
		for s := u32(0); s < 32; s += 5 {
			println("u32sh", a, s, a<<s, a>>s)
		}
	}
	i64s := []i64{0, 1, -1, 3, -3, 9223372036854775807, -9223372036854775808, 4294967296, -4294967296, 3037000500}
	for _, a := range i64s {
		for _, b := range i64s {
			var q, r i64
			if b != 0 && !(a == -9223372036854775808 && b == -1) {
				q = a / b
				r = a % b
			}
			println("i64", a, b, a+b, a-b, a*b, q, r, a&b, a|b, a^b, a&^b, ^a, -a, a < b, a > b)
		}
		for s := u32(0); s < 64; s += 7 {
			println("i64sh", a, s, a<<s, a>>s)
		}
	}
	u64s := []u64{0, 1, 3, 9223372036854775807, 9223372036854775808, 18446744073709551615, 4294967296}
	for _, a := range u64s {
		for _, b := range u64s {
			var q, r u64
			if b != 0 {
				q = a / b
				r = a % b
			}
			println("u64", a, b, a+b, a-b, a*b, q, r, a&b, a|b, a^b, a&^b, ^a, -a, a < b, a > b)
		}
		for s := u64(0); s < 64; s += 7 {
			println("u64sh", a, s, a<<s, a>>s)
		}
	}
}

