#!/bin/sh
# usage: wafile.sh prog.wa   -> compares "wa run" output with wat2c native output
export GOFLAGS=-mod=mod GOPROXY=off GOSUMDB=off GOTOOLCHAIN=local GOWORK=off
set -e
src=$(readlink -f "$1"); base=$(basename "$src" .wa); work=/tmp/probe1/wa1/$base
rm -rf $work; mkdir -p $work/out; cp "$src" $work/$base.wa
cd $work
/tmp/probe1/wa.bin run $base.wa > run.txt 2>&1 || echo "[wa run exit $?]" >> run.txt
/tmp/probe1/wa.bin build -o out/$base.wasm $base.wa > build.txt 2>&1 || { echo BUILD FAILED; cat build.txt; exit 1; }
cp /tmp/probe1/out/tests/zz_probe_test.go /tmp/probe1/wt/internal/wat/watutil/zz_probe_test.go
(cd /tmp/probe1/wt && PROBE_WAT=$work/out/$base.wat PROBE_OUT=$work/native go test ./internal/wat/watutil -run TestZZWat2CFile -count=1 2>&1 | tail -15) > w2c.txt
grep -q "^ok" w2c.txt || { echo WAT2C FAILED; cat w2c.txt; exit 1; }
pages=$(grep -o "app_memory_init_max_pages = [0-9]*" native/wa-app.c | grep -o "[0-9]*$")
sed "s/{{.MemoryBytes}}/$pages*(1<<16)/g" /tmp/probe1/wt/internal/app/appbuild/assets/native-js-host.cpp > native/host.cpp
cat >> native/host.cpp <<'EOT'
#include <stdlib.h>
extern "C" void app_syscall_js_print_position(int32_t i) { printf("<pos %d>", i); }
extern "C" void app_syscall_js_proc_exit(int32_t i) { fflush(stdout); exit(i); }
EOT
cp /tmp/probe1/wt/internal/app/appbuild/assets/native.cpp native/main.cpp
cd native
# work around the missing union members (defect D-convert-u) so that the rest of the program can be compared
[ -n "$PATCH_U" ] && sed -i 's/^  int64_t   i64;$/  int64_t   i64; uint64_t u64; uint32_t u32;/' wa-app.c
cc ${CFLAGS_X:--O0} -w -c wa-app.c -o wa-app.o 2> cc.txt || { echo CC FAILED; head -20 cc.txt; exit 1; }
g++ ${CFLAGS_X:--O0} -w main.cpp host.cpp wa-app.o -o app.exe -lm 2> cxx.txt || { echo CXX FAILED; head -20 cxx.txt; exit 1; }
./app.exe > ../native.txt 2>&1 || echo "[native exit $?]" >> ../native.txt
cd ..
if cmp -s run.txt native.txt; then echo "SAME ($(wc -l < run.txt) lines)"; else echo DIFFERENT; diff run.txt native.txt | head -40; fi
