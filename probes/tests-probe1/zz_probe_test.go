package watutil

// Differential harness: wat2c + system C compiler versus the embedded wazero engine.
//
// Place this file in internal/wat/watutil/ and run
//   PROBE_DIR=/tmp/probe1/out/tests/wat go test ./internal/wat/watutil -run TestZZProbe -v
//
// Every *.wat file in PROBE_DIR is one module.  Lines that start with ";;!" are
// directives (they stay in the source as ordinary line comments):
//   ;;! run f 1 2 | g 0x10         one script = fresh process / fresh instance; calls separated by |
//   ;;! dump 0 64                  after every script also print memory[0:64] as hex
//   ;;! cflags -O2                 extra C compiler flags
// Integer arguments are decimal or 0x.. (bit pattern, may be negative);  float
// arguments are either a float literal or 0x.. (raw bits) or nan/inf/-inf.
// Results are printed as raw bits in hex; any NaN prints as "nan".

import (
	"context"
	"fmt"
	"math"
	"os"
	"os/exec"
	"path/filepath"
	"runtime/debug"
	"sort"
	"strconv"
	"strings"
	"testing"

	"wa-lang.org/wa/internal/3rdparty/wazero"
	"wa-lang.org/wa/internal/wat/ast"
	"wa-lang.org/wa/internal/wat/parser"
	"wa-lang.org/wa/internal/wat/token"
	"wa-lang.org/wa/internal/wat/watutil/wat2c"
)

type zzCall struct {
	name string
	args []string
}

type zzCase struct {
	file    string
	src     string
	scripts [][]zzCall
	dump    [2]int
	cflags  []string
}

func zzParseCase(file string) (*zzCase, error) {
	b, err := os.ReadFile(file)
	if err != nil {
		return nil, err
	}
	c := &zzCase{file: file, src: string(b)}
	for _, line := range strings.Split(c.src, "\n") {
		line = strings.TrimSpace(line)
		if !strings.HasPrefix(line, ";;!") {
			continue
		}
		f := strings.Fields(strings.TrimPrefix(line, ";;!"))
		if len(f) == 0 {
			continue
		}
		switch f[0] {
		case "run":
			var script []zzCall
			for _, part := range strings.Split(strings.Join(f[1:], " "), "|") {
				pf := strings.Fields(part)
				if len(pf) == 0 {
					continue
				}
				script = append(script, zzCall{name: pf[0], args: pf[1:]})
			}
			c.scripts = append(c.scripts, script)
		case "dump":
			c.dump[0], _ = strconv.Atoi(f[1])
			c.dump[1], _ = strconv.Atoi(f[2])
		case "cflags":
			c.cflags = append(c.cflags, f[1:]...)
		default:
			return nil, fmt.Errorf("%s: unknown directive %q", file, f[0])
		}
	}
	return c, nil
}

func zzArgBits(typ token.Token, s string) (uint64, error) {
	switch typ {
	case token.I32:
		if v, err := strconv.ParseInt(s, 0, 64); err == nil {
			return uint64(uint32(v)), nil
		}
		v, err := strconv.ParseUint(s, 0, 64)
		return uint64(uint32(v)), err
	case token.I64:
		if v, err := strconv.ParseInt(s, 0, 64); err == nil {
			return uint64(v), nil
		}
		return strconv.ParseUint(s, 0, 64)
	case token.F32:
		if strings.HasPrefix(s, "0x") {
			v, err := strconv.ParseUint(s, 0, 32)
			return v, err
		}
		v, err := strconv.ParseFloat(s, 32)
		return uint64(math.Float32bits(float32(v))), err
	case token.F64:
		if strings.HasPrefix(s, "0x") {
			return strconv.ParseUint(s, 0, 64)
		}
		v, err := strconv.ParseFloat(s, 64)
		return math.Float64bits(v), err
	}
	return 0, fmt.Errorf("bad type")
}

func zzFmtBits(typ token.Token, v uint64) string {
	switch typ {
	case token.I32:
		return fmt.Sprintf("%08x", uint32(v))
	case token.I64:
		return fmt.Sprintf("%016x", v)
	case token.F32:
		if f := math.Float32frombits(uint32(v)); f != f {
			return "nan"
		}
		return fmt.Sprintf("%08x", uint32(v))
	case token.F64:
		if f := math.Float64frombits(v); f != f {
			return "nan"
		}
		return fmt.Sprintf("%016x", v)
	}
	return "?"
}

func zzFindFunc(m *ast.Module, export string) *ast.Func {
	for _, f := range m.Funcs {
		if f.ExportName == export {
			return f
		}
	}
	for _, e := range m.Exports {
		if e.Kind == token.FUNC && e.Name == export {
			for _, f := range m.Funcs {
				if f.Name == e.FuncIdx {
					return f
				}
			}
		}
	}
	return nil
}

// engine side: one line per call, "TRAP: ..." terminates the script
func zzRunEngine(c *zzCase, m *ast.Module, wasmBytes []byte, script []zzCall) (lines []string) {
	ctx := context.Background()
	rt := wazero.NewRuntime(ctx)
	defer rt.Close(ctx)

	compiled, err := rt.CompileModule(ctx, wasmBytes)
	if err != nil {
		return []string{"ENGINE-COMPILE-ERROR: " + err.Error()}
	}
	mod, err := rt.InstantiateModule(ctx, compiled, wazero.NewModuleConfig().WithName("demo"))
	if err != nil {
		return []string{"TRAP(init): " + zzFirstLine(err.Error())}
	}
	trapped := false
	for _, call := range script {
		fn := mod.ExportedFunction(call.name)
		f := zzFindFunc(m, call.name)
		if fn == nil || f == nil {
			return append(lines, "NO-EXPORT "+call.name)
		}
		var args []uint64
		for i, a := range call.args {
			v, err := zzArgBits(f.Type.Params[i].Type, a)
			if err != nil {
				return append(lines, "BAD-ARG "+a)
			}
			args = append(args, v)
		}
		res, err := fn.Call(ctx, args...)
		if err != nil {
			lines = append(lines, "TRAP")
			_ = zzFirstLine(err.Error())
			trapped = true
			break
		}
		var parts []string
		for i, r := range res {
			parts = append(parts, zzFmtBits(f.Type.Results[i], r))
		}
		lines = append(lines, call.name+" = "+strings.Join(parts, " "))
	}
	if c.dump[1] > 0 && !trapped {
		if mem := mod.Memory(); mem != nil {
			b, ok := mem.Read(ctx, uint32(c.dump[0]), uint32(c.dump[1]))
			if ok {
				lines = append(lines, fmt.Sprintf("mem = %x", b))
			}
		}
	}
	return lines
}

func zzFirstLine(s string) string {
	if i := strings.IndexByte(s, '\n'); i >= 0 {
		return s[:i]
	}
	return s
}

func zzCArg(typ token.Token, bits uint64) string {
	switch typ {
	case token.I32:
		return fmt.Sprintf("(int32_t)0x%xu", uint32(bits))
	case token.I64:
		return fmt.Sprintf("(int64_t)0x%xull", bits)
	case token.F32:
		return fmt.Sprintf("zz_f32(0x%xu)", uint32(bits))
	case token.F64:
		return fmt.Sprintf("zz_f64(0x%xull)", bits)
	}
	return "?"
}

const zzHostPrelude = `#include <stdio.h>
#include <stdint.h>
#include <stdlib.h>
#include <string.h>
#include "app.h"
static float  zz_f32(uint32_t b) { float f;  memcpy(&f, &b, 4); return f; }
static double zz_f64(uint64_t b) { double f; memcpy(&f, &b, 8); return f; }
static void zz_p_i32(int32_t v) { printf(" %08x", (uint32_t)v); }
static void zz_p_i64(int64_t v) { printf(" %016llx", (unsigned long long)v); }
static void zz_p_f32(float v)  { uint32_t b; memcpy(&b, &v, 4); if (v != v) printf(" nan"); else printf(" %08x", b); }
static void zz_p_f64(double v) { uint64_t b; memcpy(&b, &v, 8); if (v != v) printf(" nan"); else printf(" %016llx", (unsigned long long)b); }
`

func zzPrinter(typ token.Token) string {
	switch typ {
	case token.I32:
		return "zz_p_i32"
	case token.I64:
		return "zz_p_i64"
	case token.F32:
		return "zz_p_f32"
	case token.F64:
		return "zz_p_f64"
	}
	return "?"
}

// C side. returns per-script lines, or a single diagnostic line for every script when translation/compilation fails.
func zzRunC(t *testing.T, c *zzCase, m *ast.Module, dir string) (perScript [][]string, fatal string) {
	var code, header []byte
	func() {
		defer func() {
			if r := recover(); r != nil {
				// the stack contains one "panic(" frame per nested panic (deferred asserts re-panic);
				// report the first wat2c frame below each of them, innermost (= original) last
				var locs []string
				lines := strings.Split(string(debug.Stack()), "\n")
				for i := 0; i < len(lines); i++ {
					if !strings.HasPrefix(lines[i], "panic(") {
						continue
					}
					for j := i + 1; j < len(lines); j++ {
						l := lines[j]
						if k := strings.Index(l, "/wat2c/"); k >= 0 && !strings.Contains(l, "utils.go") {
							locs = append(locs, strings.Fields(l[k+7:])[0])
							break
						}
					}
				}
				where := strings.Join(locs, " <- ")
				fatal = fmt.Sprintf("WAT2C-PANIC: %v (at %s)", r, where)
			}
		}()
		var err error
		_, code, header, err = Wat2C(filepath.Base(c.file), []byte(c.src), wat2c.Options{Prefix: "app"})
		if err != nil {
			fatal = "WAT2C-ERROR: " + err.Error()
		}
	}()
	if fatal != "" {
		return
	}
	os.WriteFile(filepath.Join(dir, "app.c"), code, 0666)
	os.WriteFile(filepath.Join(dir, "app.h"), header, 0666)

	var sb strings.Builder
	sb.WriteString(zzHostPrelude)
	if m.Memory != nil {
		// the host owns the memory: reserve the maximum, hand out the initial pages
		sb.WriteString("void app_memory_init(uint8_t** pp, int32_t* pages) { *pp = calloc((size_t)app_memory_init_max_pages + 1, 65536); *pages = app_memory_init_pages; }\n")
	}
	sb.WriteString("int main(int argc, char** argv) {\n  int script = atoi(argv[1]);\n  setvbuf(stdout, NULL, _IONBF, 0);\n  app_init();\n")
	for si, script := range c.scripts {
		fmt.Fprintf(&sb, "  if (script == %d) {\n", si)
		for _, call := range script {
			f := zzFindFunc(m, call.name)
			if f == nil {
				fatal = "NO-EXPORT " + call.name
				return
			}
			var args []string
			for i, a := range call.args {
				bits, err := zzArgBits(f.Type.Params[i].Type, a)
				if err != nil {
					fatal = "BAD-ARG " + a
					return
				}
				args = append(args, zzCArg(f.Type.Params[i].Type, bits))
			}
			cname := "app_" + toCNameZZ(call.name)
			callExpr := fmt.Sprintf("%s(%s)", cname, strings.Join(args, ", "))
			switch len(f.Type.Results) {
			case 0:
				fmt.Fprintf(&sb, "    %s; printf(\"%s =\\n\");\n", callExpr, call.name)
			case 1:
				fmt.Fprintf(&sb, "    { %s r = %s; printf(\"%s =\"); %s(r); printf(\"\\n\"); }\n",
					map[token.Token]string{token.I32: "int32_t", token.I64: "int64_t", token.F32: "float", token.F64: "double"}[f.Type.Results[0]],
					callExpr, call.name, zzPrinter(f.Type.Results[0]))
			default:
				fmt.Fprintf(&sb, "    { app_%s_ret_t r = %s; printf(\"%s =\");", toCNameZZ(f.Name), callExpr, call.name)
				for i, rt := range f.Type.Results {
					fmt.Fprintf(&sb, " %s(r.R%d);", zzPrinter(rt), i)
				}
				sb.WriteString(" printf(\"\\n\"); }\n")
			}
		}
		if c.dump[1] > 0 {
			fmt.Fprintf(&sb, "    printf(\"mem = \"); for (int i = %d; i < %d; i++) printf(\"%%02x\", app_memory[i]); printf(\"\\n\");\n", c.dump[0], c.dump[0]+c.dump[1])
		}
		sb.WriteString("  }\n")
	}
	sb.WriteString("  return 0;\n}\n")
	os.WriteFile(filepath.Join(dir, "main.c"), []byte(sb.String()), 0666)

	exe := filepath.Join(dir, "demo.exe")
	ccArgs := append([]string{"-O0", "-w"}, c.cflags...)
	ccArgs = append(ccArgs, strings.Fields(os.Getenv("PROBE_CFLAGS"))...)
	ccArgs = append(ccArgs, "-o", exe, "main.c", "app.c", "-lm")
	cmd := exec.Command("cc", ccArgs...)
	cmd.Dir = dir
	if out, err := cmd.CombinedOutput(); err != nil {
		var errs []string
		for _, l := range strings.Split(string(out), "\n") {
			if strings.Contains(l, "error") {
				errs = append(errs, strings.TrimSpace(l))
			}
		}
		if len(errs) > 3 {
			errs = errs[:3]
		}
		fatal = "CC-ERROR: " + strings.Join(errs, " ;; ")
		return
	}
	for si := range c.scripts {
		out, err := exec.Command(exe, strconv.Itoa(si)).CombinedOutput()
		lines := []string{}
		if s := strings.TrimSpace(string(out)); s != "" {
			lines = strings.Split(s, "\n")
		}
		if err != nil {
			// keep only the lines of completed calls
			var keep []string
			for _, l := range lines {
				if strings.Contains(l, " =") {
					keep = append(keep, l)
				}
			}
			lines = append(keep, "TRAP")
			_ = err
		}
		for i := range lines {
			lines[i] = strings.TrimRight(strings.Replace(lines[i], "=  ", "= ", 1), " ")
			lines[i] = strings.Replace(lines[i], " =  ", " = ", 1)
		}
		perScript = append(perScript, lines)
	}
	return
}

func toCNameZZ(name string) string {
	var sb strings.Builder
	for _, c := range name {
		switch {
		case '0' <= c && c <= '9', 'a' <= c && c <= 'z', 'A' <= c && c <= 'Z':
			sb.WriteRune(c)
		default:
			sb.WriteRune('_')
		}
	}
	return sb.String()
}

func zzNorm(l string) string {
	l = strings.TrimSpace(l)
	for strings.Contains(l, "  ") {
		l = strings.ReplaceAll(l, "  ", " ")
	}
	return strings.TrimSuffix(l, " =") + map[bool]string{true: " =", false: ""}[strings.HasSuffix(l, " =")]
}

func TestZZProbe(t *testing.T) {
	dir := os.Getenv("PROBE_DIR")
	if dir == "" {
		t.Skip("PROBE_DIR not set")
	}
	files, _ := filepath.Glob(filepath.Join(dir, "*.wat"))
	sort.Strings(files)
	if only := os.Getenv("PROBE_ONLY"); only != "" {
		var sel []string
		for _, f := range files {
			for _, pre := range strings.Split(only, ",") {
				if strings.HasPrefix(filepath.Base(f), pre) {
					sel = append(sel, f)
					break
				}
			}
		}
		files = sel
	}
	keep := os.Getenv("PROBE_KEEP")
	for _, file := range files {
		file := file
		t.Run(strings.TrimSuffix(filepath.Base(file), ".wat"), func(t *testing.T) {
			t.Parallel()
			c, err := zzParseCase(file)
			if err != nil {
				t.Fatal(err)
			}
			wasmBytes, err := Wat2Wasm(filepath.Base(file), []byte(c.src))
			if err != nil {
				t.Logf("INVALID-TEST (Wat2Wasm rejects): %v", err)
				fmt.Printf("RESULT %s INVALID wat2wasm: %v\n", filepath.Base(file), zzFirstLine(err.Error()))
				return
			}
			work := t.TempDir()
			if keep != "" {
				work = filepath.Join(keep, strings.TrimSuffix(filepath.Base(file), ".wat"))
				os.MkdirAll(work, 0777)
			}
			m, err := parser.ParseModule(filepath.Base(file), []byte(c.src))
			if err != nil {
				fmt.Printf("RESULT %s INVALID parser: %v\n", filepath.Base(file), err)
				return
			}
			cLines, fatal := zzRunC(t, c, m, work)
			diverged := false
			for si, script := range c.scripts {
				want := zzRunEngine(c, m, wasmBytes, script)
				var got []string
				if fatal != "" {
					got = []string{fatal}
				} else {
					got = cLines[si]
				}
				for i := range want {
					want[i] = zzNorm(want[i])
				}
				for i := range got {
					got[i] = zzNorm(got[i])
				}
				if strings.Join(got, "\n") != strings.Join(want, "\n") {
					diverged = true
					var desc []string
					for _, call := range script {
						desc = append(desc, call.name+" "+strings.Join(call.args, " "))
					}
					fmt.Printf("RESULT %s DIVERGE script#%d [%s]\n    C     : %s\n    engine: %s\n",
						filepath.Base(file), si, strings.Join(desc, " | "),
						strings.Join(got, " ; "), strings.Join(want, " ; "))
				}
			}
			if fatal != "" && len(c.scripts) == 0 {
				fmt.Printf("RESULT %s DIVERGE %s (no scripts)\n", filepath.Base(file), fatal)
				diverged = true
			}
			if !diverged {
				fmt.Printf("RESULT %s OK (%d scripts)\n", filepath.Base(file), len(c.scripts))
			}
		})
	}
}

// Whole-module helper: translate the WAT file $PROBE_WAT (e.g. produced by "wa build")
// and write wa-app.c / wa-app.h to $PROBE_OUT.
func TestZZWat2CFile(t *testing.T) {
	in, out := os.Getenv("PROBE_WAT"), os.Getenv("PROBE_OUT")
	if in == "" || out == "" {
		t.Skip("PROBE_WAT/PROBE_OUT not set")
	}
	src, err := os.ReadFile(in)
	if err != nil {
		t.Fatal(err)
	}
	_, code, header, err := Wat2C(filepath.Base(in), src, wat2c.Options{Prefix: "app"})
	if err != nil {
		t.Fatal(err)
	}
	os.MkdirAll(out, 0777)
	os.WriteFile(filepath.Join(out, "wa-app.c"), code, 0666)
	os.WriteFile(filepath.Join(out, "wa-app.h"), header, 0666)
}
