#!/bin/sh
export GOFLAGS=-mod=mod GOPROXY=off GOSUMDB=off GOTOOLCHAIN=local GOWORK=off
cp /tmp/probe1/out/tests/zz_probe_test.go /tmp/probe1/wt/internal/wat/watutil/zz_probe_test.go  # remember to delete it afterwards
cd /tmp/probe1/wt && PROBE_DIR=/tmp/probe1/out/tests/wat PROBE_ONLY="$1" PROBE_KEEP="$2" go test ./internal/wat/watutil -run TestZZProbe -count=1 -v 2>&1 | grep -v "^--- \|^=== \|^    --- \|^PASS\|^ok "
