;;! run f 5
(module
  (func $f (export "f") (param $R0 i32) (result i32)
    i32.const 100
    local.get $R0
    i32.sub)
)
