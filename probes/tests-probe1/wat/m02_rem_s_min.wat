;;! run rem_s 0x80000000 -1
(module (func $rem_s (export "rem_s") (param $a i32) (param $b i32) (result i32) local.get $a local.get $b i32.rem_s))
