;;! run f 0 | f 1
(module
  ;; single result that must move down from R2 to R0
  (func $f (export "f") (param $a i32) (result f64)
    block $A (result f64)
      i32.const 1
      i64.const 2
      block $B
        local.get $a
        if $c
          f64.const 7.5
          br $A
        end
      end
      drop
      drop
      f64.const 1.25
    end)
)
