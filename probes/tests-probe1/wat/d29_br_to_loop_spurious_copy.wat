;;! run f 3
(module
  ;; same shape with an i32 on top: wat2c copies it into the loop's "result" slot R0
  (func $f (export "f") (param $n i32) (result i32) (local $i i32)
    i32.const 1000
    loop $l (result i32)
      i32.const 7
      block $x
        i32.const 55
        local.get $i
        i32.const 1
        i32.add
        local.tee $i
        local.get $n
        i32.lt_s
        if $c
          br $l
        end
        drop
      end
      local.get $i
      i32.add
    end
    i32.add)
)
