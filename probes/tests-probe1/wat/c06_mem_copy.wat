;;! dump 0 40
;;! run copy 4 0 16
;;! run copy 0 4 16
;;! run copy 1 0 30
;;! run copy 0 1 30
;;! run copy 8 8 8
;;! run copy 0 20 0
;;! run copy 3 0 9 | copy 20 22 10
(module
  (memory 1)
  (data (i32.const 0) "abcdefghijklmnopqrstuvwxyz0123456789ABCD")
  (func $copy (export "copy") (param $d i32) (param $s i32) (param $n i32) local.get $d local.get $s local.get $n memory.copy)
)
