;;! run fillm | copy 1 0 4000 | sum 4096
;;! run fillm | copy 0 1 4000 | sum 4096
;;! run fillm | copy 64 0 3000 | sum 4096
;;! run fillm | copy 7 0 300 | sum 4096
(module
  (memory 1)
  (func $fillmem (export "fillm") (local $i i32)
    loop $l
      local.get $i
      local.get $i
      i32.const 7
      i32.mul
      i32.const 3
      i32.add
      i32.store8
      local.get $i
      i32.const 1
      i32.add
      local.tee $i
      i32.const 4096
      i32.lt_u
      br_if $l
    end)
  (func $copy (export "copy") (param $d i32) (param $s i32) (param $n i32) local.get $d local.get $s local.get $n memory.copy)
  (func $sum (export "sum") (param $n i32) (result i32) (local $i i32) (local $h i32)
    loop $l
      local.get $h
      i32.const 31
      i32.mul
      local.get $i
      i32.load8_u
      i32.add
      local.set $h
      local.get $i
      i32.const 1
      i32.add
      local.tee $i
      local.get $n
      i32.lt_u
      br_if $l
    end
    local.get $h)
)
