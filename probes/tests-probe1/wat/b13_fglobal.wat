;;! run pi | tiny | setget32 1.0000001 | i64g | seti64 0x123456789abcdef0 | i32g
(module
  (global $gpi f32 (f32.const 3.1415927))
  (global $gtiny (mut f32) (f32.const 1e-10))
  (global $big (mut i64) (i64.const -9223372036854775808))
  (global $i (mut i32) (i32.const -2147483648))
  (func $pi (export "pi") (result f32) global.get $gpi)
  (func $tiny (export "tiny") (result f32) global.get $gtiny)
  (func $setget32 (export "setget32") (param $a f32) (result f32) local.get $a global.set $gtiny global.get $gtiny)
  (func $i64g (export "i64g") (result i64) global.get $big)
  (func $seti64 (export "seti64") (param $a i64) (result i64) local.get $a global.set $big global.get $big)
  (func $i32g (export "i32g") (result i32) global.get $i)
)
