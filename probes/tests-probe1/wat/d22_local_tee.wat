;;! run f 5 | g 5 | h 1.5
(module
  (func $f (export "f") (param $a i32) (result i32) (local $t i32)
    local.get $a
    i32.const 3
    i32.add
    local.tee $t
    local.get $t
    i32.mul)
  (func $g (export "g") (param $a i64) (result i64) (local $t i64)
    local.get $a
    local.tee $t
    local.get $t
    i64.const 1
    i64.add
    local.tee $t
    i64.sub
    local.get $t
    i64.add)
  (func $h (export "h") (param $a f64) (result f64) (local $t f64)
    local.get $a
    local.tee $t
    local.get $t
    f64.mul)
)
