;;! run f 5
(module
  (func $f (export "f") (param $result i32) (result i32 i32)
    local.get $result
    i32.const 1)
)
