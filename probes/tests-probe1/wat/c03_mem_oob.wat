;;! run l32 65532
;;! run l32 65533
;;! run l32 65536
;;! run l32 -1
;;! run l32 -4
;;! run l8_off -1
;;! run s32 65533 1
;;! run s8 65536 1
;;! run l32 1000000
(module
  (memory 1 1)
  (func $l32 (export "l32") (param $a i32) (result i32) local.get $a i32.load)
  (func $l8_off (export "l8_off") (param $a i32) (result i32) local.get $a i32.load8_u offset=1)
  (func $s32 (export "s32") (param $a i32) (param $v i32) local.get $a local.get $v i32.store)
  (func $s8 (export "s8") (param $a i32) (param $v i32) local.get $a local.get $v i32.store8)
)
