;;! dump 0 16
;;! run nop
(module
  (memory 1)
  (data (i32.const 4) "WXYZ")
  (data (i32.const 2) "abcd")
  (data (i32.const 5) "!")
  (func $nop (export "nop"))
)
