;;! run f
(module
  ;; $A is entered at stack height 0; inside $B one value (9) sits below the two results
  (func $f (export "f") (result i32 i32)
    block $A (result i32 i32)
      i32.const 9
      block $B
        i32.const 111
        i32.const 222
        br $A
      end
      drop
      i32.const 333
      i32.const 444
    end)
)
