;;! run f 0
;;! run f 1
(module
  (func $f (export "f") (param $a i32) (result i32)
    local.get $a
    if $c
      unreachable
    end
    i32.const 3)
)
