;;! run pi
(module (func $pi (export "pi") (result f64) f64.const 3.141592653589793))
