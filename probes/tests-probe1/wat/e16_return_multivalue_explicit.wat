;;! run f 0 | f 1
(module
  (func $f (export "f") (param $a i32) (result i32 f64 i64)
    local.get $a
    if $c
      i32.const 1
      f64.const 2
      i64.const 3
      return
    end
    i32.const 4
    f64.const 5
    i64.const 6
    return)
)
