;;! run a | b
(module
  (func $a (export "b") (result i32) i32.const 1)
  (func $b (export "a") (result i32) i32.const 2)
)
