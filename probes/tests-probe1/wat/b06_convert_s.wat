;;! run c32_i32_s -1 | c32_i32_s 0x7fffffff | c32_i32_s 16777217 | c64_i32_s -1 | c64_i32_s 0x80000000
;;! run c32_i64_s -1 | c32_i64_s 0x7fffffffffffffff | c32_i64_s 0x0020000020000001 | c64_i64_s -1 | c64_i64_s 0x7fffffffffffffff | c64_i64_s 9007199254740993
;;! run demote 1e40 | demote 1e-50 | demote 0.1 | demote nan | promote 0.1 | promote 0x00000001 | promote inf
(module
  (func $c32_i32_s (export "c32_i32_s") (param $a i32) (result f32) local.get $a f32.convert_i32_s)
  (func $c64_i32_s (export "c64_i32_s") (param $a i32) (result f64) local.get $a f64.convert_i32_s)
  (func $c32_i64_s (export "c32_i64_s") (param $a i64) (result f32) local.get $a f32.convert_i64_s)
  (func $c64_i64_s (export "c64_i64_s") (param $a i64) (result f64) local.get $a f64.convert_i64_s)
  (func $demote (export "demote") (param $a f64) (result f32) local.get $a f32.demote_f64)
  (func $promote (export "promote") (param $a f32) (result f64) local.get $a f64.promote_f32)
)
