;;! run min32 nan 1 | min32 1 nan | max32 nan 1 | max32 1 nan
;;! run min32 0x80000000 0 | min32 0 0x80000000 | max32 0x80000000 0 | max32 0 0x80000000
;;! run min64 nan 1 | min64 1 nan | max64 nan 1 | max64 1 nan
;;! run min64 0x8000000000000000 0 | min64 0 0x8000000000000000 | max64 0x8000000000000000 0 | max64 0 0x8000000000000000
;;! run min32 1 2 | max32 1 2 | min32 -inf inf | max32 -inf inf
(module
  (func $min32 (export "min32") (param $a f32) (param $b f32) (result f32) local.get $a local.get $b f32.min)
  (func $max32 (export "max32") (param $a f32) (param $b f32) (result f32) local.get $a local.get $b f32.max)
  (func $min64 (export "min64") (param $a f64) (param $b f64) (result f64) local.get $a local.get $b f64.min)
  (func $max64 (export "max64") (param $a f64) (param $b f64) (result f64) local.get $a local.get $b f64.max)
)
