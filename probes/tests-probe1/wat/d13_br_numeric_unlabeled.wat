;;! run f 0 | f 1
(module
  (func $f (export "f") (param $a i32) (result i32)
    block
      local.get $a
      br_if 0
      i32.const 10
      return
    end
    i32.const 20)
)
