;;! run f 3
(module
  ;; "br $l" to a loop needs no operands even when the loop has a result
  (func $f (export "f") (param $n i32) (result i32) (local $i i32)
    loop $l (result i32)
      i32.const 1
      block $x
        f64.const 2.5
        local.get $i
        i32.const 1
        i32.add
        local.tee $i
        local.get $n
        i32.lt_s
        if $c
          br $l
        end
        drop
      end
      drop
      local.get $i
    end)
)
