;;! run init
(module
  (func $init (export "init") (result i32) i32.const 1)
)
