;;! run f 3
(module
  (func $impl (param $a i32) (result i32) local.get $a i32.const 1 i32.add)
  (export "f" (func $impl))
)
