;;! run a | b | c | d | e | g | h | pi | onep
(module
  (func $a (export "a") (result f32) f32.const 1e-10)
  (func $b (export "b") (result f64) f64.const 1e-10)
  (func $c (export "c") (result f32) f32.const 0.1)
  (func $d (export "d") (result f64) f64.const 0.1)
  (func $e (export "e") (result f64) f64.const 1.7976931348623157e308)
  (func $g (export "g") (result f32) f32.const 3.4028234e38)
  (func $h (export "h") (result f64) f64.const -0.0)
  (func $pi (export "pi") (result f64) f64.const 3.141592653589793)
  (func $onep (export "onep") (result f32) f32.const 1.0000001)
)
