;;! run f 0 | f 1
(module
  (func $f (export "f") (param $a i32) (result i32)
    block $b
      local.get $a
      br_if $b
      i32.const 10
      return
    end
    block $b
      local.get $a
      i32.eqz
      br_if $b
      i32.const 20
      return
    end
    i32.const 30)
)
