;;! run f
(module
  (func $p.q (result i32) i32.const 1)
  (func $p_q (result i32) i32.const 2)
  (func $f (export "f") (result i32) call $p.q i32.const 10 i32.mul call $p_q i32.add)
)
