;;! run t nan
;;! run t -1
(module (func $t (export "t") (param $a f64) (result i32) local.get $a i32.trunc_f64_u))
