;;! run f
(module
  (func $f (export "f") (result i32)
    block $b
      br $b
      unreachable
    end
    i32.const 3)
)
