;;! run rw 0x7ffffff0
;;! run rw 0x80000010
;;! run rw_off 0x7ffffffc
(module
  (memory 33000 33000)
  (func $rw (export "rw") (param $a i32) (result i32)
    local.get $a
    i32.const 0x1234567
    i32.store
    local.get $a
    i32.load)
  (func $rw_off (export "rw_off") (param $a i32) (result i32)
    local.get $a
    i32.const 0x7654321
    i32.store offset=8
    local.get $a
    i32.load offset=8)
)
