;;! run abs32 -1.5 | abs32 0x80000000 | neg32 0 | neg32 1.5 | ceil32 -0.5 | floor32 -0.5 | trunc32 -1.7 | nearest32 2.5 | nearest32 3.5 | nearest32 -0.5 | nearest32 -2.5 | sqrt32 2 | sqrt32 -1 | sqrt32 0x80000000
;;! run abs64 -1.5 | abs64 0x8000000000000000 | neg64 0 | ceil64 -0.5 | floor64 -0.5 | trunc64 -1.7 | nearest64 2.5 | nearest64 3.5 | nearest64 -0.5 | nearest64 4503599627370497.5 | sqrt64 2
;;! run copysign32 1.5 0x80000000 | copysign32 -1.5 1 | copysign64 1.5 -0.0 | copysign64 -1.5 2
;;! run sub32 1 3 | div32 1 3 | div32 1 0 | div32 -1 0 | div32 0 0 | sub64 1 3 | div64 1 3 | mul32 16777217 3 | add32 16777216 1
(module
  (func $abs32 (export "abs32") (param $a f32) (result f32) local.get $a f32.abs)
  (func $neg32 (export "neg32") (param $a f32) (result f32) local.get $a f32.neg)
  (func $ceil32 (export "ceil32") (param $a f32) (result f32) local.get $a f32.ceil)
  (func $floor32 (export "floor32") (param $a f32) (result f32) local.get $a f32.floor)
  (func $trunc32 (export "trunc32") (param $a f32) (result f32) local.get $a f32.trunc)
  (func $nearest32 (export "nearest32") (param $a f32) (result f32) local.get $a f32.nearest)
  (func $sqrt32 (export "sqrt32") (param $a f32) (result f32) local.get $a f32.sqrt)
  (func $abs64 (export "abs64") (param $a f64) (result f64) local.get $a f64.abs)
  (func $neg64 (export "neg64") (param $a f64) (result f64) local.get $a f64.neg)
  (func $ceil64 (export "ceil64") (param $a f64) (result f64) local.get $a f64.ceil)
  (func $floor64 (export "floor64") (param $a f64) (result f64) local.get $a f64.floor)
  (func $trunc64 (export "trunc64") (param $a f64) (result f64) local.get $a f64.trunc)
  (func $nearest64 (export "nearest64") (param $a f64) (result f64) local.get $a f64.nearest)
  (func $sqrt64 (export "sqrt64") (param $a f64) (result f64) local.get $a f64.sqrt)
  (func $copysign32 (export "copysign32") (param $a f32) (param $b f32) (result f32) local.get $a local.get $b f32.copysign)
  (func $copysign64 (export "copysign64") (param $a f64) (param $b f64) (result f64) local.get $a local.get $b f64.copysign)
  (func $sub32 (export "sub32") (param $a f32) (param $b f32) (result f32) local.get $a local.get $b f32.sub)
  (func $div32 (export "div32") (param $a f32) (param $b f32) (result f32) local.get $a local.get $b f32.div)
  (func $mul32 (export "mul32") (param $a f32) (param $b f32) (result f32) local.get $a local.get $b f32.mul)
  (func $add32 (export "add32") (param $a f32) (param $b f32) (result f32) local.get $a local.get $b f32.add)
  (func $sub64 (export "sub64") (param $a f64) (param $b f64) (result f64) local.get $a local.get $b f64.sub)
  (func $div64 (export "div64") (param $a f64) (param $b f64) (result f64) local.get $a local.get $b f64.div)
)
