;;! run f
(module
  (func $f (export "f") (result i32 i64 f32)
    block $A (result i32 i64 f32)
      f64.const 9
      block $B
        i32.const 1
        i64.const 2
        f32.const 3
        br $A
      end
      drop
      i32.const 4
      i64.const 5
      f32.const 6
    end)
)
