;;! run f 5
(module
  (func $f (export "f") (param $int i32) (result i32) (local $for i32)
    local.get $int
    local.set $for
    local.get $for)
)
