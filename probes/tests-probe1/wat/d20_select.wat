;;! run s32 1 2 0 | s32 1 2 5 | s64 -1 2 0 | s64 -1 2 -1 | sf32 1.5 2.5 0 | sf32 1.5 2.5 1 | sf64 1.5 2.5 0 | sf64 1.5 2.5 0x100
(module
  (func $s32 (export "s32") (param $a i32) (param $b i32) (param $c i32) (result i32) local.get $a local.get $b local.get $c select)
  (func $s64 (export "s64") (param $a i64) (param $b i64) (param $c i32) (result i64) local.get $a local.get $b local.get $c select)
  (func $sf32 (export "sf32") (param $a f32) (param $b f32) (param $c i32) (result f32) local.get $a local.get $b local.get $c select)
  (func $sf64 (export "sf64") (param $a f64) (param $b f64) (param $c i32) (result f64) local.get $a local.get $b local.get $c select)
)
