;;! run f 0 7 3 | f 1 7 3 | f 2 7 3 | mv 3 5
;;! run f 3 7 3
;;! run f 4 7 3
;;! run f 100 7 3
;;! run f -1 7 3
(module
  (type $bin (func (param i32) (param i32) (result i32)))
  (type $un2 (func (param i32) (result i32 i64)))
  (table 5 funcref)
  (elem (i32.const 0) $sub $div $shl $two)
  (func $sub (param $a i32) (param $b i32) (result i32) local.get $a local.get $b i32.sub)
  (func $div (param $a i32) (param $b i32) (result i32) local.get $a local.get $b i32.div_u)
  (func $shl (param $a i32) (param $b i32) (result i32) local.get $a local.get $b i32.shl)
  (func $two (param $a i32) (result i32 i64) local.get $a i32.const 1 i32.add local.get $a i64.extend_i32_s)
  (func $f (export "f") (param $i i32) (param $a i32) (param $b i32) (result i32)
    local.get $a
    local.get $b
    local.get $i
    call_indirect (type $bin))
  (func $mv (export "mv") (param $i i32) (param $a i32) (result i32 i64)
    local.get $a
    local.get $i
    call_indirect (type $un2))
)
