;;! run t32_f32_u 1.9 | t32_f32_u -0.9 | t32_f32_u 4294967040 | t32_f32_u 3000000000 | t32_f64_u 4294967295.9 | t32_f64_u -0.9 | t32_f64_u 3000000000.5
;;! run t64_f32_u 1.9 | t64_f32_u -0.9 | t64_f32_u 18446742974197923840 | t64_f32_u 9223372036854775808 | t64_f64_u 18446744073709549568 | t64_f64_u 9223372036854775808 | t64_f64_u 1e19
;;! run t32_f32_u -1
;;! run t32_f32_u 4294967296
;;! run t32_f32_u nan
;;! run t32_f64_u -1
;;! run t32_f64_u 4294967296
;;! run t64_f32_u -1
;;! run t64_f64_u -1
;;! run t64_f64_u 18446744073709551616
;;! run t64_f64_u nan
(module
  (func $t32_f32_u (export "t32_f32_u") (param $a f32) (result i32) local.get $a i32.trunc_f32_u)
  (func $t32_f64_u (export "t32_f64_u") (param $a f64) (result i32) local.get $a i32.trunc_f64_u)
  (func $t64_f32_u (export "t64_f32_u") (param $a f32) (result i64) local.get $a i64.trunc_f32_u)
  (func $t64_f64_u (export "t64_f64_u") (param $a f64) (result i64) local.get $a i64.trunc_f64_u)
)
