;;! run fac 10 | fib 15
(module
  (func $fac (export "fac") (param $n i64) (result i64)
    local.get $n
    i64.const 2
    i64.lt_s
    if $b (result i64)
      i64.const 1
    else
      local.get $n
      local.get $n
      i64.const 1
      i64.sub
      call $fac
      i64.mul
    end)
  (func $fib (export "fib") (param $n i32) (result i32)
    local.get $n
    i32.const 2
    i32.lt_s
    if $b (result i32)
      local.get $n
    else
      local.get $n
      i32.const 1
      i32.sub
      call $fib
      local.get $n
      i32.const 2
      i32.sub
      call $fib
      i32.add
    end)
)
