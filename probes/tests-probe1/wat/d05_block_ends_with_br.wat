;;! run f
(module
  (func $f (export "f") (result i32)
    block $A (result i32)
      i32.const 7
      br $A
    end)
)
