;;! run size | grow 1 | size | grow 2 | size | grow 1 | size | grow 0 | grow -1
;;! run grow 3 | size | grow 0x10000 | store_after 196607 | size
;;! run grow 4
(module
  (memory 1 4)
  (func $size (export "size") (result i32) memory.size)
  (func $grow (export "grow") (param $a i32) (result i32) local.get $a memory.grow)
  (func $store_after (export "store_after") (param $a i32) (result i32) local.get $a i32.const 0x5a i32.store8 local.get $a i32.load8_u)
)
