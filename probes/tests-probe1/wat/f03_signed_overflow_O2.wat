;;! cflags -O2
;;! run inc_gt 5 | inc_gt 0x7fffffff | mul_div 0x40000000 | neg_lt 0x80000000 | inc_gt64 0x7fffffffffffffff | sum_to 0x7ffffffe
(module
  (func $inc_gt (export "inc_gt") (param $a i32) (result i32)
    local.get $a
    i32.const 1
    i32.add
    local.get $a
    i32.gt_s)
  (func $inc_gt64 (export "inc_gt64") (param $a i64) (result i32)
    local.get $a
    i64.const 1
    i64.add
    local.get $a
    i64.gt_s)
  (func $mul_div (export "mul_div") (param $a i32) (result i32)
    local.get $a
    i32.const 2
    i32.mul
    i32.const 2
    i32.div_s)
  (func $neg_lt (export "neg_lt") (param $a i32) (result i32)
    i32.const 0
    local.get $a
    i32.sub
    i32.const 0
    i32.lt_s
    local.get $a
    i32.const 0
    i32.lt_s
    i32.and)
  ;; loop whose exit relies on wrap-around: counts iterations until i+2 < i
  (func $sum_to (export "sum_to") (param $i i32) (result i32) (local $n i32)
    block $x
      loop $l
        local.get $n
        i32.const 1
        i32.add
        local.set $n
        local.get $i
        i32.const 2
        i32.add
        local.get $i
        i32.lt_s
        br_if $x
        local.get $i
        i32.const 2
        i32.add
        local.set $i
        local.get $n
        i32.const 10
        i32.lt_s
        br_if $l
      end
    end
    local.get $n)
)
