;;! run copy 65530 0 7
;;! run copy 0 65530 7
;;! run copy 65536 0 0
;;! run copy 65537 0 0
;;! run copy 0 0 -1
(module
  (memory 1 1)
  (func $copy (export "copy") (param $d i32) (param $s i32) (param $n i32) local.get $d local.get $s local.get $n memory.copy)
)
