;;! run f 5
(module
  (global $g (mut i32) (i32.const 3))
  (func $h (param i32) (result i32) local.get 0 i32.const 2 i32.mul)
  (func $f (export "f") (param i32) (result i32)
    local.get 0
    call $h
    global.get $g
    i32.add)
)
