;;! run f -1 | f 0x80000000 | f 5
(module (func $f (export "f") (param $a i32) (result f32) local.get $a f32.convert_i32_u))
