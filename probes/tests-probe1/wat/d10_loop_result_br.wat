;;! run f 5
(module
  (func $f (export "f") (param $n i32) (result i32) (local $i i32)
    loop $l (result i32)
      local.get $i
      i32.const 1
      i32.add
      local.set $i
      local.get $i
      local.get $n
      i32.lt_s
      if $c
        br $l
      end
      local.get $i
    end)
)
