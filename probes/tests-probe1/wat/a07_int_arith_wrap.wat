;;! run add 0x7fffffff 1 | sub 0x80000000 1 | mul 0x10000 0x10000 | mul 0x7fffffff 0x7fffffff | and 0xf0f0 0xff00 | or 0xf0f0 0x0f00 | xor -1 0xff
;;! run add64 0x7fffffffffffffff 1 | sub64 0x8000000000000000 1 | mul64 0x100000000 0x100000000 | mul64 0x7fffffffffffffff 3
;;! run wrap 0x1ffffffff | wrap 0x80000000 | ext_s 0x80000000 | ext_u 0x80000000 | ext_s 5 | ext_u -1
(module
  (func $add (export "add") (param $a i32) (param $b i32) (result i32) local.get $a local.get $b i32.add)
  (func $sub (export "sub") (param $a i32) (param $b i32) (result i32) local.get $a local.get $b i32.sub)
  (func $mul (export "mul") (param $a i32) (param $b i32) (result i32) local.get $a local.get $b i32.mul)
  (func $and (export "and") (param $a i32) (param $b i32) (result i32) local.get $a local.get $b i32.and)
  (func $or (export "or") (param $a i32) (param $b i32) (result i32) local.get $a local.get $b i32.or)
  (func $xor (export "xor") (param $a i32) (param $b i32) (result i32) local.get $a local.get $b i32.xor)
  (func $add64 (export "add64") (param $a i64) (param $b i64) (result i64) local.get $a local.get $b i64.add)
  (func $sub64 (export "sub64") (param $a i64) (param $b i64) (result i64) local.get $a local.get $b i64.sub)
  (func $mul64 (export "mul64") (param $a i64) (param $b i64) (result i64) local.get $a local.get $b i64.mul)
  (func $wrap (export "wrap") (param $a i64) (result i32) local.get $a i32.wrap_i64)
  (func $ext_s (export "ext_s") (param $a i32) (result i64) local.get $a i64.extend_i32_s)
  (func $ext_u (export "ext_u") (param $a i32) (result i64) local.get $a i64.extend_i32_u)
)
