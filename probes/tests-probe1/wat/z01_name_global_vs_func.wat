;;! run x
(module
  (global $x i32 (i32.const 7))
  (func $x (export "x") (result i32) global.get $x)
)
