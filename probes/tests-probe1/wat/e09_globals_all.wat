;;! run seti 5 | geti | setl -7 | getl | setf 1.5 | getf | geti | getc
(module
  (global $gi (mut i32) (i32.const 0))
  (global $gl (mut i64) (i64.const 0))
  (global $gf (mut f32) (f32.const 0))
  (global $c i64 (i64.const 4294967296))
  (func $seti (export "seti") (param $a i32) local.get $a global.set $gi)
  (func $geti (export "geti") (result i32) global.get $gi)
  (func $setl (export "setl") (param $a i64) local.get $a global.set $gl)
  (func $getl (export "getl") (result i64) global.get $gl)
  (func $setf (export "setf") (param $a f32) local.get $a global.set $gf)
  (func $getf (export "getf") (result f32) global.get $gf)
  (func $getc (export "getc") (result i64) global.get $c)
)
