;;! run call 2 | call 3
;;! run call 0
(module
  (type $t (func (result i32)))
  (table 4 8 funcref)
  (elem (i32.const 2) $a $b)
  (func $a (result i32) i32.const 11)
  (func $b (result i32) i32.const 22)
  (func $call (export "call") (param $i i32) (result i32) local.get $i call_indirect (type $t))
)
