;;! run f 0
;;! run f 1
(module
  ;; the textually last instruction is an unreachable nested in an if; the function itself falls through
  (func $f (export "f") (param $a i32) (result i32)
    i32.const 7
    local.get $a
    if $c
      unreachable
    end)
)
