;;! run get
(module
  (memory 1)
  (global $g (mut i32) (i32.const 1))
  (func $st
    global.get $g
    i32.const 41
    i32.add
    global.set $g
    i32.const 0
    i32.load
    global.get $g
    i32.add
    global.set $g)
  (data (i32.const 0) "\01\00\00\00")
  (func $get (export "get") (result i32) global.get $g)
  (start $st)
)
