;;! run f 0 | f 1 | f 2
(module
  (func $f (export "f") (param $a i32) (result i32)
    block $o
      i32.const 77
      block $m
        i32.const 88
        block $i
          local.get $a
          i32.const 1
          i32.eq
          br_if $m
          local.get $a
          i32.const 2
          i32.eq
          br_if $o
        end
        drop
      end
      drop
      i32.const 1
      return
    end
    i32.const 2)
)
