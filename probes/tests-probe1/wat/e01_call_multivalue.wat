;;! run f 7 | g 1 2 | h 3
(module
  (func $mv (param $a i32) (result i32 i64 f32 f64)
    local.get $a
    local.get $a
    i64.extend_i32_s
    i64.const 10
    i64.mul
    local.get $a
    f32.convert_i32_s
    f32.const 0.5
    f32.add
    local.get $a
    f64.convert_i32_s
    f64.const 0.25
    f64.sub)
  (func $f (export "f") (param $a i32) (result i32 i64 f32 f64)
    local.get $a
    call $mv)
  (func $swap (param $a i32) (param $b i64) (result i64 i32)
    local.get $b
    local.get $a)
  (func $g (export "g") (param $a i32) (param $b i64) (result i32 i64 i32)
    i32.const 99
    local.get $a
    local.get $b
    call $swap
    )
  (func $sub3 (param $a i32) (param $b i32) (param $c i32) (result i32)
    local.get $a
    local.get $b
    i32.sub
    local.get $c
    i32.sub)
  (func $two (param $a i32) (result i32 i32)
    local.get $a
    i32.const 100
    i32.mul
    local.get $a
    i32.const 10
    i32.mul)
  (func $h (export "h") (param $a i32) (result i32)
    local.get $a
    call $two
    local.get $a
    call $sub3)
)
