;;! run add 1 2 | sub 10 3 | sub64 1 2
;;! run fadd 1.5 2.25
(module
  (func $add (export "add") (param $a i32) (param $b i32) (result i32)
    local.get $a local.get $b i32.add)
  (func $sub (export "sub") (param $a i32) (param $b i32) (result i32)
    local.get $a local.get $b i32.sub)
  (func $sub64 (export "sub64") (param $a i64) (param $b i64) (result i64)
    local.get $a local.get $b i64.sub)
  (func $fadd (export "fadd") (param $a f64) (param $b f64) (result f64)
    local.get $a local.get $b f64.add)
)
