;;! run f 4
(module
  (func (export "f") (param $a i32) (result i32) local.get $a i32.const 1 i32.add)
)
