;;! dump 0 16
;;! run f
(module
  (memory 1)
  (data (i32.const 100) "0123456789")
  (func $f (export "f")
    i32.const 2
    i32.const 3
    i32.const 4
    memory.init 0)
)
