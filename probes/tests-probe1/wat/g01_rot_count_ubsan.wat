;;! cflags -fsanitize=undefined -fno-sanitize-recover=all
;;! run rotl 1 0x80000000 | rotr 1 0x80000001 | rotl64 1 0x8000000000000000
(module
  (func $rotl (export "rotl") (param $a i32) (param $n i32) (result i32) local.get $a local.get $n i32.rotl)
  (func $rotr (export "rotr") (param $a i32) (param $n i32) (result i32) local.get $a local.get $n i32.rotr)
  (func $rotl64 (export "rotl64") (param $a i64) (param $n i64) (result i64) local.get $a local.get $n i64.rotl)
)
