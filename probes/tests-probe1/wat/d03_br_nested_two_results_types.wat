;;! run f
(module
  (func $f (export "f") (result i64 f64)
    block $A (result i64 f64)
      i32.const 9
      block $B
        i64.const 111
        f64.const 222
        br $A
      end
      drop
      i64.const 333
      f64.const 444
    end)
)
