;;! run call 0 | call 1 | swap | call 0 | call 1
(module
  (type $t (func (result i32)))
  (table 2 funcref)
  (elem (i32.const 0) $a $b)
  (func $a (result i32) i32.const 11)
  (func $b (result i32) i32.const 22)
  (func $call (export "call") (param $i i32) (result i32) local.get $i call_indirect (type $t))
  (func $swap (export "swap")
    i32.const 0
    i32.const 1
    table.get 0
    i32.const 1
    i32.const 0
    table.get 0
    table.set 0
    table.set 0)
)
