;;! dump 0 64
;;! run nop
(module
  (memory 1)
  (data (i32.const 0) "\00\5c\22\3f\3f\2f\80\ff\00abc\00\30\31\0a\0d\09\27\25\73\7f\01\1b\5c\6e")
  (data (i32.const 32) "??/??=x\\\"%d\00f\e4\b8\ad")
  (func $nop (export "nop"))
)
