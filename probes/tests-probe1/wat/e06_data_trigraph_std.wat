;;! cflags -std=c99
;;! dump 0 16
;;! run nop
(module
  (memory 1)
  (data (i32.const 0) "a??/b??=c??(d")
  (func $nop (export "nop"))
)
