;;! run f -1 | f 0x8000000000000000 | f 5 | f 0x8000000000000401
(module (func $f (export "f") (param $a i64) (result f64) local.get $a f64.convert_i64_u))
