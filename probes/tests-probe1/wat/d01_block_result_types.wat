;;! run f 3 | g 0 | g 1
(module
  (func $f (export "f") (param $a i32) (result i32 i64 f32 f64)
    block $b (result i32 i64 f32 f64)
      local.get $a
      i64.const -5
      f32.const 1.5
      f64.const -2.25
    end)
  (func $g (export "g") (param $a i32) (result i64 f64)
    local.get $a
    if $i (result i64 f64)
      i64.const 1
      f64.const 2
    else
      i64.const -3
      f64.const -4
    end)
)
