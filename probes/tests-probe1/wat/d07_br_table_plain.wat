;;! run f 0 | f 1 | f 2 | f 3 | f -1
(module
  (func $f (export "f") (param $i i32) (result i32)
    block $d
      block $c
        block $b
          block $a
            local.get $i
            br_table $a $b $c $d
          end
          i32.const 10
          return
        end
        i32.const 20
        return
      end
      i32.const 30
      return
    end
    i32.const 40)
)
