;;! run f 0 | f 1 | f 9
(module
  ;; br_table leaves a nested void block carrying one result to two different outer blocks
  (func $f (export "f") (param $i i32) (result i32)
    block $a (result i32)
      block $b (result i32)
        i32.const 5
        block $c
          i32.const 42
          local.get $i
          br_table $a $b $b
        end
        drop
        i32.const 6
      end
      i32.const 1000
      i32.add
    end)
)
