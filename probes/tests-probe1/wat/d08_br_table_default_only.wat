;;! run f 0 | f 5
(module
  (func $f (export "f") (param $i i32) (result i32)
    block $a
      local.get $i
      br_table $a
    end
    i32.const 40)
)
