;;! run clz 0 | clz 1 | clz -1 | clz 0x00010000 | ctz 0 | ctz 0x80000000 | ctz 6 | popcnt 0 | popcnt -1 | popcnt 0x80000001
;;! run clz64 0 | clz64 1 | clz64 -1 | clz64 0x100000000 | ctz64 0 | ctz64 0x8000000000000000 | ctz64 0x100000000 | popcnt64 0 | popcnt64 -1 | popcnt64 0x8000000100000001
(module
  (func $clz (export "clz") (param $a i32) (result i32) local.get $a i32.clz)
  (func $ctz (export "ctz") (param $a i32) (result i32) local.get $a i32.ctz)
  (func $popcnt (export "popcnt") (param $a i32) (result i32) local.get $a i32.popcnt)
  (func $clz64 (export "clz64") (param $a i64) (result i64) local.get $a i64.clz)
  (func $ctz64 (export "ctz64") (param $a i64) (result i64) local.get $a i64.ctz)
  (func $popcnt64 (export "popcnt64") (param $a i64) (result i64) local.get $a i64.popcnt)
)
