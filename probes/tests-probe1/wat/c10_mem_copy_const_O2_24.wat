;;! cflags -O2
;;! dump 0 256
;;! run fwd
;;! run bwd
(module
  (memory 1)
  (data (i32.const 0) "abcdefghijklmnopqrstuvwxyz0123456789ABCDEFGHIJKLMNOPQRSTUVWXYZabcdefghijklmnopqrstuvwxyz0123456789ABCDEFGHIJKLMNOPQRSTUVWXYZabcdefghijklmnopqrstuvwxyz0123456789ABCDEFGHIJKLMNOPQRSTUVWXYZabcdefghijklmnopqrstuvwxyz0123456789ABCDEFGHIJKLMNOPQRSTUVWXYZ")
  (func $fwd (export "fwd") i32.const 8 i32.const 0 i32.const 24 memory.copy)
  (func $bwd (export "bwd") i32.const 0 i32.const 8 i32.const 24 memory.copy)
)
