;;! run shl 1 32 | shl 1 33 | shl -1 31 | shr_s -8 1 | shr_s -8 33 | shr_u -8 1 | shr_u -8 33 | shr_u -8 -1
;;! run rotl 0x80000000 1 | rotl 0x80000001 4 | rotl 0x12345678 0 | rotl 0x12345678 32 | rotl 0x12345678 36 | rotl 1 31
;;! run rotr 0x80000000 1 | rotr 1 1 | rotr 0x80000001 4 | rotr 0x12345678 0 | rotr 0x12345678 32 | rotr 0xf2345678 36
;;! run shl64 1 64 | shl64 1 65 | shl64 -1 63 | shr_s64 -8 1 | shr_s64 -8 65 | shr_u64 -8 1 | shr_u64 -8 65 | shr_u64 -8 -1
;;! run rotl64 0x8000000000000000 1 | rotl64 0x8000000000000001 4 | rotl64 0x123456789abcdef0 0 | rotl64 0x123456789abcdef0 64 | rotl64 0x123456789abcdef0 68
;;! run rotr64 0x8000000000000000 1 | rotr64 1 1 | rotr64 0x8000000000000001 4 | rotr64 0xf23456789abcdef0 68
(module
  (func $shl (export "shl") (param $a i32) (param $b i32) (result i32) local.get $a local.get $b i32.shl)
  (func $shr_s (export "shr_s") (param $a i32) (param $b i32) (result i32) local.get $a local.get $b i32.shr_s)
  (func $shr_u (export "shr_u") (param $a i32) (param $b i32) (result i32) local.get $a local.get $b i32.shr_u)
  (func $rotl (export "rotl") (param $a i32) (param $b i32) (result i32) local.get $a local.get $b i32.rotl)
  (func $rotr (export "rotr") (param $a i32) (param $b i32) (result i32) local.get $a local.get $b i32.rotr)
  (func $shl64 (export "shl64") (param $a i64) (param $b i64) (result i64) local.get $a local.get $b i64.shl)
  (func $shr_s64 (export "shr_s64") (param $a i64) (param $b i64) (result i64) local.get $a local.get $b i64.shr_s)
  (func $shr_u64 (export "shr_u64") (param $a i64) (param $b i64) (result i64) local.get $a local.get $b i64.shr_u)
  (func $rotl64 (export "rotl64") (param $a i64) (param $b i64) (result i64) local.get $a local.get $b i64.rotl)
  (func $rotr64 (export "rotr64") (param $a i64) (param $b i64) (result i64) local.get $a local.get $b i64.rotr)
)
