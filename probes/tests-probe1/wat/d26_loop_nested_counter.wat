;;! run f 4 3
(module
  (func $f (export "f") (param $n i32) (param $m i32) (result i32) (local $i i32) (local $j i32) (local $s i32)
    block $oexit
      loop $outer
        local.get $i
        local.get $n
        i32.ge_s
        br_if $oexit
        i32.const 0
        local.set $j
        block $iexit
          loop $inner
            local.get $j
            local.get $m
            i32.ge_s
            br_if $iexit
            local.get $s
            local.get $i
            local.get $j
            i32.mul
            i32.add
            local.set $s
            local.get $j
            i32.const 1
            i32.add
            local.set $j
            br $inner
          end
        end
        local.get $i
        i32.const 1
        i32.add
        local.set $i
        br $outer
      end
    end
    local.get $s)
)
