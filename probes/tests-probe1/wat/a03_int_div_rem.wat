;;! run div_s 7 -2 | div_s -7 2 | div_u -7 2 | rem_s -7 2 | rem_s 7 -2 | rem_u -7 3 | div_u 7 -2
;;! run div_s64 7 -2 | div_s64 -7 2 | div_u64 -7 2 | rem_s64 -7 2 | rem_s64 7 -2 | rem_u64 -7 3
;;! run rem_s 0x80000000 -1
;;! run rem_s64 0x8000000000000000 -1
;;! run div_s 0x80000000 -1
;;! run div_s64 0x8000000000000000 -1
;;! run div_s 1 0
;;! run div_u 1 0
;;! run rem_s 1 0
;;! run rem_u 1 0
;;! run div_u64 1 0
;;! run rem_u64 1 0
(module
  (func $div_s (export "div_s") (param $a i32) (param $b i32) (result i32) local.get $a local.get $b i32.div_s)
  (func $div_u (export "div_u") (param $a i32) (param $b i32) (result i32) local.get $a local.get $b i32.div_u)
  (func $rem_s (export "rem_s") (param $a i32) (param $b i32) (result i32) local.get $a local.get $b i32.rem_s)
  (func $rem_u (export "rem_u") (param $a i32) (param $b i32) (result i32) local.get $a local.get $b i32.rem_u)
  (func $div_s64 (export "div_s64") (param $a i64) (param $b i64) (result i64) local.get $a local.get $b i64.div_s)
  (func $div_u64 (export "div_u64") (param $a i64) (param $b i64) (result i64) local.get $a local.get $b i64.div_u)
  (func $rem_s64 (export "rem_s64") (param $a i64) (param $b i64) (result i64) local.get $a local.get $b i64.rem_s)
  (func $rem_u64 (export "rem_u64") (param $a i64) (param $b i64) (result i64) local.get $a local.get $b i64.rem_u)
)
