;;! run lt32 1 2 | lt32 2 1 | gt32 1 2 | le32 2 2 | ge32 1 2 | eq32 nan nan | ne32 nan nan | lt32 nan 1 | ge32 nan 1 | eq32 0 0x80000000
;;! run lt64 1 2 | lt64 2 1 | gt64 1 2 | le64 2 2 | ge64 1 2 | eq64 nan nan | ne64 nan nan | lt64 nan 1 | ge64 nan 1 | eq64 0 0x8000000000000000
(module
  (func $lt32 (export "lt32") (param $a f32) (param $b f32) (result i32) local.get $a local.get $b f32.lt)
  (func $gt32 (export "gt32") (param $a f32) (param $b f32) (result i32) local.get $a local.get $b f32.gt)
  (func $le32 (export "le32") (param $a f32) (param $b f32) (result i32) local.get $a local.get $b f32.le)
  (func $ge32 (export "ge32") (param $a f32) (param $b f32) (result i32) local.get $a local.get $b f32.ge)
  (func $eq32 (export "eq32") (param $a f32) (param $b f32) (result i32) local.get $a local.get $b f32.eq)
  (func $ne32 (export "ne32") (param $a f32) (param $b f32) (result i32) local.get $a local.get $b f32.ne)
  (func $lt64 (export "lt64") (param $a f64) (param $b f64) (result i32) local.get $a local.get $b f64.lt)
  (func $gt64 (export "gt64") (param $a f64) (param $b f64) (result i32) local.get $a local.get $b f64.gt)
  (func $le64 (export "le64") (param $a f64) (param $b f64) (result i32) local.get $a local.get $b f64.le)
  (func $ge64 (export "ge64") (param $a f64) (param $b f64) (result i32) local.get $a local.get $b f64.ge)
  (func $eq64 (export "eq64") (param $a f64) (param $b f64) (result i32) local.get $a local.get $b f64.eq)
  (func $ne64 (export "ne64") (param $a f64) (param $b f64) (result i32) local.get $a local.get $b f64.ne)
)
