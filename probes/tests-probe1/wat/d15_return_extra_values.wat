;;! run f
(module
  (func $f (export "f") (result i32)
    i32.const 1
    i32.const 2
    return)
)
