;;! run f 0 | f 1
(module
  (func $f (export "f") (param $a i32) (result i32)
    block $out (result i32)
      i32.const 100
      local.get $a
      if $i (result i32)
        i32.const 10
        br $out
        i32.const 0
      else
        i32.const 20
      end
      i32.add
    end)
)
