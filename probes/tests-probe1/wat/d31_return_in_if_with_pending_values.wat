;;! run f 0 | f 1
(module
  (func $f (export "f") (param $a i32) (result i32)
    i32.const 10
    local.get $a
    if $c
      i32.const 1
      return
    end
    i32.const 5
    i32.add)
)
