;;! run f 1 2 3 | g 10
(module
  (func $sub (param $a i32) (param $b i32) (result i32) local.get $a local.get $b i32.sub)
  (func $sub64 (param $a i64) (param $b i32) (param $c f64) (result f64)
    local.get $a
    f64.convert_i64_s
    local.get $b
    f64.convert_i32_s
    f64.sub
    local.get $c
    f64.div)
  (func $f (export "f") (param $a i32) (param $b i32) (param $c i32) (result i32)
    local.get $a
    local.get $b
    local.get $c
    call $sub
    call $sub
    local.get $a
    local.get $b
    call $sub
    local.get $c
    call $sub
    call $sub)
  (func $g (export "g") (param $a i32) (result f64)
    i64.const 100
    local.get $a
    i32.const 3
    call $sub
    f64.const 4
    call $sub64)
  )
