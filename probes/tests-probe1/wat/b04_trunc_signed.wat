;;! run t32_f32_s -1.9 | t32_f32_s 2147483520 | t32_f32_s -2147483648 | t32_f64_s -1.9 | t32_f64_s 2147483647.9 | t32_f64_s -2147483648.9
;;! run t64_f32_s -1.9 | t64_f32_s 9223371487098961920 | t64_f64_s -1.9 | t64_f64_s 9223372036854774784 | t64_f64_s -9223372036854775808
;;! run t32_f32_s 2147483648
;;! run t32_f32_s nan
;;! run t32_f32_s inf
;;! run t32_f64_s 2147483648
;;! run t32_f64_s -2147483649
;;! run t32_f64_s nan
;;! run t64_f32_s 9223372036854775808
;;! run t64_f64_s 9223372036854775808
;;! run t64_f64_s nan
(module
  (func $t32_f32_s (export "t32_f32_s") (param $a f32) (result i32) local.get $a i32.trunc_f32_s)
  (func $t32_f64_s (export "t32_f64_s") (param $a f64) (result i32) local.get $a i32.trunc_f64_s)
  (func $t64_f32_s (export "t64_f32_s") (param $a f32) (result i64) local.get $a i64.trunc_f32_s)
  (func $t64_f64_s (export "t64_f64_s") (param $a f64) (result i64) local.get $a i64.trunc_f64_s)
)
