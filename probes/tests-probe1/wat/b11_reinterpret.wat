;;! run i2f 0x7fc00001 | i2f 0x3f800000 | f2i 1.0 | f2i 0x80000000 | l2d 0x3ff0000000000000 | d2l -2.0 | d2l 0x7ff0000000000001
;;! run mix 0x3f800000
(module
  (func $i2f (export "i2f") (param $a i32) (result f32) local.get $a f32.reinterpret_i32)
  (func $f2i (export "f2i") (param $a f32) (result i32) local.get $a i32.reinterpret_f32)
  (func $l2d (export "l2d") (param $a i64) (result f64) local.get $a f64.reinterpret_i64)
  (func $d2l (export "d2l") (param $a f64) (result i64) local.get $a i64.reinterpret_f64)
  ;; an i64 lives in the slot first, then an f32 is reinterpreted in the same slot
  (func $mix (export "mix") (param $a i32) (result i32)
    i64.const -1
    drop
    local.get $a
    f32.reinterpret_i32
    f32.const 1
    f32.add
    i32.reinterpret_f32)
)
