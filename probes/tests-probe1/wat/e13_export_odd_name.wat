;;! run a-b.c 4
(module
  (func $f (export "a-b.c") (param $a i32) (result i32) local.get $a i32.const 1 i32.add)
)
