;;! run min 1 nan | min 0 0x80000000
(module (func $min (export "min") (param $a f32) (param $b f32) (result f32) local.get $a local.get $b f32.min))
