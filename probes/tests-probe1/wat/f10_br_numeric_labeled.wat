;;! run f 0 | f 1 | f 2
(module
  (func $f (export "f") (param $a i32) (result i32)
    block $o
      block $i
        local.get $a
        br_if 0
        local.get $a
        i32.const 1
        i32.sub
        br_if 1
        i32.const 1
        return
      end
      i32.const 2
      return
    end
    i32.const 3)
)
