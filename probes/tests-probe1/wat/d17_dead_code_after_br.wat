;;! run f
(module
  (func $f (export "f") (result i32)
    block $b (result i32)
      i32.const 3
      br $b
      i32.const 1
      i32.add
    end)
)
