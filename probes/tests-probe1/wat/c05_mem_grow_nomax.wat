;;! run size | grow 1 | size
(module
  (memory 1)
  (func $size (export "size") (result i32) memory.size)
  (func $grow (export "grow") (param $a i32) (result i32) local.get $a memory.grow)
)
