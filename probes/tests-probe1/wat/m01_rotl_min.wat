;;! run rotl 0x80000000 1
(module (func $rotl (export "rotl") (param $a i32) (param $b i32) (result i32) local.get $a local.get $b i32.rotl))
