;;! run f 0 | f 1 | f -1
(module
  (func $f (export "f") (param $a i32) (result i32) (local $r i32)
    i32.const 5
    local.set $r
    local.get $a
    if $i
      i32.const 6
      local.set $r
    end
    local.get $r)
)
