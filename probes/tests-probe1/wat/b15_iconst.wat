;;! run a | b | c | d | e | f
(module
  (func $a (export "a") (result i32) i32.const -2147483648)
  (func $b (export "b") (result i64) i64.const -9223372036854775808)
  (func $c (export "c") (result i32) i32.const 4294967295)
  (func $d (export "d") (result i64) i64.const -1)
  (func $e (export "e") (result i64) i64.const 0x80000000)
  (func $f (export "f") (result i32) i32.const 2147483647)
)
