;;! run f 5
(module
  (func $f (export "f") (param $n i32) (result i32) (local $i i32) (local $s i32)
    loop $l (result i32)
      local.get $s
      local.get $i
      i32.add
      local.set $s
      local.get $i
      i32.const 1
      i32.add
      local.tee $i
      local.get $n
      i32.lt_s
      br_if $l
      local.get $s
    end)
)
