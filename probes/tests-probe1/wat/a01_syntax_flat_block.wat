;;! run f 1 | f 0
(module
  (func $f (export "f") (param $a i32) (result i32)
    block $b (result i32)
      local.get $a
      if $i (result i32)
        i32.const 10
      else
        i32.const 20
      end
    end
  )
)
