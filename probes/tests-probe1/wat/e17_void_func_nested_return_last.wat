;;! dump 0 8
;;! run f 0 | f 1
(module
  (memory 1)
  (func $f (export "f") (param $a i32)
    i32.const 0
    i32.const 0
    i32.load8_u
    i32.const 1
    i32.add
    i32.store8
    local.get $a
    if $c
      i32.const 4
      i32.const 9
      i32.store8
      return
    end)
)
