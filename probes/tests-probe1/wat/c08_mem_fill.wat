;;! dump 0 24
;;! run fill 2 0x1ab 5 | fill 10 -1 3 | fill 20 7 0
;;! run fill 65530 1 6 | last
;;! run fill 65530 1 7
;;! run fill 65536 1 0
;;! run fill 65537 1 0
(module
  (memory 1 1)
  (func $fill (export "fill") (param $d i32) (param $v i32) (param $n i32) local.get $d local.get $v local.get $n memory.fill)
  (func $last (export "last") (result i32) i32.const 65535 i32.load8_u)
)
