;;! run f 0 | f 1
(module
  (func $f (export "f") (param $a i32) (result i32)
    block $x
      i32.const 10
      local.get $a
      br_if $x
      drop
      i32.const 1
      return
    end
    i32.const 2)
)
