;;! run f -1 | f 0x8000000000000000 | f 5 | f 0x8000008000000001
(module (func $f (export "f") (param $a i64) (result f32) local.get $a f32.convert_i64_u))
