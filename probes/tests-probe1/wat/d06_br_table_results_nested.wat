;;! run f 0 | f 1 | f 2 | f 7
(module
  ;; the dummy "i32.const 0" after br_table only keeps wat2c's static stack balanced
  (func $f (export "f") (param $i i32) (result i32)
    block $a (result i32)
      block $b (result i32)
        i32.const 5
        block $c (result i32)
          i32.const 42
          local.get $i
          br_table $a $b $c
          i32.const 0
        end
        i32.add
        br $a
        i32.const 0
      end
      i32.const 1000
      i32.add
    end)
)
