;;! run f 0
(module
  (func $f (export "f") (param $a i32) (result i32 i64)
    i32.const 7
    i64.const 8
    local.get $a
    if $c
      unreachable
    end)
)
