;;! run f
(module
  ;; br 0 with an extra operand below the result: valid, the extra one is discarded
  (func $f (export "f") (result i32)
    block $A (result i32)
      i32.const 1
      i32.const 2
      br $A
    end)
)
