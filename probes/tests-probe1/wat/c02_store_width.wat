;;! dump 0 48
;;! run s8 0 0x12345678 | s16 2 0x12345678 | s32 4 0x12345678 | s64_8 8 0x1122334455667788 | s64_16 10 0x1122334455667788 | s64_32 12 0x1122334455667788 | s64 16 0x1122334455667788 | sf32 24 -1.5 | sf64 32 -1.5 | s8 40 -1 | s16 41 -2
;;! run s32_off 1 0xcafebabe | s64_off 8 -2 | s8_off 0 0x1ff
(module
  (memory 1)
  (func $s8 (export "s8") (param $a i32) (param $v i32) local.get $a local.get $v i32.store8)
  (func $s16 (export "s16") (param $a i32) (param $v i32) local.get $a local.get $v i32.store16)
  (func $s32 (export "s32") (param $a i32) (param $v i32) local.get $a local.get $v i32.store)
  (func $s64_8 (export "s64_8") (param $a i32) (param $v i64) local.get $a local.get $v i64.store8)
  (func $s64_16 (export "s64_16") (param $a i32) (param $v i64) local.get $a local.get $v i64.store16)
  (func $s64_32 (export "s64_32") (param $a i32) (param $v i64) local.get $a local.get $v i64.store32)
  (func $s64 (export "s64") (param $a i32) (param $v i64) local.get $a local.get $v i64.store)
  (func $sf32 (export "sf32") (param $a i32) (param $v f32) local.get $a local.get $v f32.store)
  (func $sf64 (export "sf64") (param $a i32) (param $v f64) local.get $a local.get $v f64.store)
  (func $s32_off (export "s32_off") (param $a i32) (param $v i32) local.get $a local.get $v i32.store offset=2)
  (func $s64_off (export "s64_off") (param $a i32) (param $v i64) local.get $a local.get $v i64.store offset=5)
  (func $s8_off (export "s8_off") (param $a i32) (param $v i32) local.get $a local.get $v i32.store8 offset=30)
)
