;;! run f
(module
  (global $g (mut i32) (i32.const 3))
  (func $f (export "f") (result i32)
    global.get 0)
)
