;;! run s64 -1 2 0 | s64 -1 2 1
(module
  (func $s64 (export "s64") (param $a i64) (param $b i64) (param $c i32) (result i64) local.get $a local.get $b local.get $c select (result i64))
)
