#!/bin/sh
export GOFLAGS=-mod=mod GOPROXY=off GOSUMDB=off GOTOOLCHAIN=local GOWORK=off
cd /tmp/probe4/wt && rm -rf /tmp/probe4/out/details && go test ./internal/wat/zz_probe/ "$@" 2>&1 | grep -v "^    --- FAIL\|^--- FAIL\|^=== RUN\|^    --- PASS\|^--- PASS" | sed 's/^ *zz_harness_test.go:[0-9]*: //'
