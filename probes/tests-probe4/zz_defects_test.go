package zz_probe

import "testing"

// One minimal module per distinct defect. Every case states what the text
// means; every case FAILS on the probed revision.
var casesDefects = []tcase{
	{ // D1a: assembler takes "$1" for index 1
		name: "D01a_dollar_digit_func_name_taken_as_index",
		wat: `(module
  (func $1 (result i32) i32.const 10)
  (func $0 (result i32) i32.const 20)
  (func $f (export "f") (result i32) call $1))`,
		calls: []call{{fn: "f", want: u(10)}},
	},
	{ // D1b
		name: "D01b_dollar_digit_local_name_taken_as_index",
		wat:  `(module (func $f (export "f") (param $1 i32) (param $0 i32) (result i32) local.get $1))`,
		calls: []call{{fn: "f", args: u(7, 9), want: u(7)}},
	},
	{ // D1c: printer turns (memory $0 1) into (memory 0 1): min 0 max 1
		name: "D01c_printer_drops_dollar_of_digit_names",
		wat: `(module
  (memory $0 1)
  (export "m" (memory $0)))`,
		mems: []string{"m"},
	},
	{ // D2a
		name: "D02a_inline_export_on_second_unnamed_func",
		wat: `(module
  (func (export "a") (result i32) i32.const 1)
  (func (export "b") (result i32) i32.const 2))`,
		calls: []call{{fn: "a", want: u(1)}, {fn: "b", want: u(2)}},
	},
	{ // D2b
		name: "D02b_inline_export_unnamed_func_after_unnamed_import",
		env:  envFuncs,
		wat: `(module
  (import "env" "f1" (func (result i32)))
  (func (export "a") (result i32) i32.const 1))`,
		calls: []call{{fn: "a", want: u(1)}},
	},
	{ // D2c: wrong global + printer panic
		name: "D02c_inline_export_on_unnamed_global",
		wat: `(module
  (global i32 (i32.const 1))
  (global (export "b") i32 (i32.const 2)))`,
		globals: map[string]uint64{"b": 2},
	},
	{ // D2d: strip keys functions by name; all unnamed functions share one entry
		name: "D02d_strip_unnamed_functions_share_one_entry",
		wat: `(module
  (func $helper (result i32) i32.const 5)
  (func (export "a") (result i32) call $helper)
  (func (result i32) i32.const 2))`,
		calls: []call{{fn: "a", want: u(5)}},
	},
	{ // D3
		name: "D03_second_inline_export_lost",
		wat:  `(module (func $a (export "x") (export "y") (result i32) i32.const 10))`,
		calls: []call{{fn: "x", want: u(10)}, {fn: "y", want: u(10)}},
	},
	{ // D4: import says max 2, provider has no max -> link error expected
		name: "D04_imported_memory_max_dropped",
		env:  `(module (memory $mem 1) (export "mem" (memory 0)))`,
		wat:  `(module (import "env" "mem" (memory 1 2)))`,
		instErr: true,
	},
	{ // D5
		name: "D05_memory_max_zero_dropped",
		wat: `(module
  (memory 0 0)
  (func $g (export "grow") (param i32) (result i32) local.get 0 memory.grow))`,
		calls: []call{{fn: "grow", args: u(1), want: u(0xffffffff)}},
	},
	{ // D6
		name: "D06_unicode_escape_in_string",
		wat: `(module
  (memory 1)
  (data (i32.const 0) "\u{41}")
  (func $l (export "l") (param i32) (result i32) local.get 0 i32.load8_u))`,
		calls: []call{{fn: "l", args: u(0), want: u('A')}, {fn: "l", args: u(1), want: u(0)}},
	},
	{ // D7a
		name: "D07a_line_comment_inside_global",
		wat: `(module
  (global $g i32 ;; the type
    (i32.const 5))
  (func $f (export "f") (result i32) global.get $g))`,
		calls: []call{{fn: "f", want: u(5)}},
	},
	{ // D7b
		name: "D07b_block_comment_before_immediate",
		wat:  `(module (func $f (export "f") (result i32) i32.const (; one ;) 1))`,
		calls: []call{{fn: "f", want: u(1)}},
	},
	{ // D7c
		name: "D07c_comment_inside_data",
		wat: `(module
  (memory 1)
  (data (i32.const 0) ;; offset
    "ab")
  (func $l (export "l") (param i32) (result i32) local.get 0 i32.load8_u))`,
		calls: []call{{fn: "l", args: u(1), want: u('b')}},
	},
	{ // D8
		name: "D08_memory_init_never_assembles",
		wat: `(module
  (memory 1)
  (data (i32.const 0) "hello")
  (func $z (export "z") (result i32)
    i32.const 10 i32.const 0 i32.const 0 memory.init 0
    i32.const 1))`,
		calls: []call{{fn: "z", want: u(1)}},
	},
	{ // D9
		name: "D09_numeric_type_index_after_type_merge",
		wat: `(module
  (type $a (func))
  (type $b (func))
  (type $c (func (param i32) (result i32)))
  (table 1 funcref)
  (elem (i32.const 0) $inc)
  (func $inc (param i32) (result i32) local.get 0 i32.const 1 i32.add)
  (func $f (export "f") (result i32) i32.const 5 i32.const 0 call_indirect (type 2)))`,
		calls: []call{{fn: "f", want: u(6)}},
	},
	{ // D10a
		name: "D10a_strip_removes_func_exported_by_index",
		wat: `(module
  (func $live (result i32) i32.const 2)
  (export "x" (func 0)))`,
		calls: []call{{fn: "x", want: u(2)}},
	},
	{ // D10b
		name: "D10b_strip_removes_func_in_elem_by_index",
		wat: `(module
  (type $r (func (result i32)))
  (table 1 funcref)
  (func $live (result i32) i32.const 2)
  (elem (i32.const 0) 0)
  (func $f (export "f") (result i32) i32.const 0 call_indirect (type $r)))`,
		calls: []call{{fn: "f", want: u(2)}},
	},
	{ // D10c: index references are not renumbered when something in front is removed
		name: "D10c_strip_does_not_renumber_type_index",
		wat: `(module
  (table 1 funcref)
  (elem (i32.const 0) $live)
  (func $dead (param i64 i64))
  (func $live (param i32) (result i32) local.get 0)
  (func $f (export "f") (result i32) i32.const 4 i32.const 0 call_indirect (type 1)))`,
		calls: []call{{fn: "f", want: u(4)}},
	},
	{ // D11a
		name: "D11a_strip_removes_reexported_import",
		env:  envFuncs,
		wat: `(module
  (import "env" "f1" (func $i1 (result i32)))
  (export "x" (func $i1)))`,
		calls: []call{{fn: "x", want: u(100)}},
	},
	{ // D11b
		name: "D11b_strip_removes_import_used_in_elem",
		env:  envFuncs,
		wat: `(module
  (type $r (func (result i32)))
  (import "env" "f1" (func $i1 (result i32)))
  (table 1 funcref)
  (elem (i32.const 0) $i1)
  (func $f (export "f") (result i32) i32.const 0 call_indirect (type $r)))`,
		calls: []call{{fn: "f", want: u(100)}},
	},
	{ // D11c
		name: "D11c_strip_removes_import_used_as_start",
		env:  envFuncs,
		wat: `(module
  (import "env" "nop" (func $nop))
  (start $nop)
  (func $f (export "f")))`,
		calls: []call{{fn: "f"}},
	},
	{ // D12
		name: "D12_export_with_empty_name_lost",
		wat: `(module
  (func $g (result i32) i32.const 2)
  (export "" (func $g)))`,
		calls: []call{{fn: "", want: u(2)}},
	},
	{ // D13a
		name: "D13a_printer_export_name_with_quote",
		wat: `(module
  (func $g (result i32) i32.const 2)
  (export "q\"r" (func $g)))`,
		calls: []call{{fn: "q\"r", want: u(2)}},
	},
	{ // D13b
		name: "D13b_printer_name_with_control_char",
		wat:  `(module (func $f (export "a\01b") (result i32) i32.const 1))`,
		calls: []call{{fn: "a\x01b", want: u(1)}},
	},
	{ // D14
		name: "D14_printer_drops_import_and_type_param_names",
		env:  envFuncs,
		wat: `(module
  (type $t (func (param $p i32)))
  (import "env" "add1" (func $add1 (param $x i32) (result i32))))`,
	},
	{ // D16a: the only valid spelling of a table import is rejected
		name: "D16a_imported_table_funcref_rejected",
		env: `(module (table $t 2 funcref) (func $a (result i32) i32.const 4) (elem (i32.const 0) $a) (export "t" (table $t)))`,
		wat: `(module
  (type $r (func (result i32)))
  (import "env" "t" (table $t 1 funcref))
  (func $f (export "f") (result i32) i32.const 0 call_indirect (type $r)))`,
		calls: []call{{fn: "f", want: u(4)}},
	},
}

func TestProbe_Defects(t *testing.T) { runCases(t, casesDefects) }
