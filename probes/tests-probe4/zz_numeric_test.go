package zz_probe

import (
	"fmt"
	"math"
	"math/bits"
	"strings"
	"testing"
)

type numop struct {
	name string
	in   string // e.g. "i32 i32"
	out  string
	args []uint64
	want uint64
}

func TestProbe_NumericOps(t *testing.T) {
	a32, b32 := uint32(0xfffffff0), uint32(3) // a is negative as signed
	a64, b64 := uint64(0xfffffffffffffff0), uint64(3)
	m16, m16l := int32(-16), int64(-16)
	fa, fb := float32(-2.5), float32(1.5)
	da, db := -2.5, 1.5
	b2u := func(b bool) uint64 {
		if b {
			return 1
		}
		return 0
	}
	ops := []numop{
		{"i32.eqz", "i32", "i32", u(0), 1},
		{"i32.eq", "i32 i32", "i32", u(uint64(a32), uint64(b32)), 0},
		{"i32.ne", "i32 i32", "i32", u(uint64(a32), uint64(b32)), 1},
		{"i32.lt_s", "i32 i32", "i32", u(uint64(a32), uint64(b32)), 1},
		{"i32.lt_u", "i32 i32", "i32", u(uint64(a32), uint64(b32)), 0},
		{"i32.gt_s", "i32 i32", "i32", u(uint64(a32), uint64(b32)), 0},
		{"i32.gt_u", "i32 i32", "i32", u(uint64(a32), uint64(b32)), 1},
		{"i32.le_s", "i32 i32", "i32", u(uint64(a32), uint64(b32)), 1},
		{"i32.le_u", "i32 i32", "i32", u(uint64(a32), uint64(b32)), 0},
		{"i32.ge_s", "i32 i32", "i32", u(uint64(a32), uint64(b32)), 0},
		{"i32.ge_u", "i32 i32", "i32", u(uint64(a32), uint64(b32)), 1},
		{"i32.le_s", "i32 i32", "i32", u(3, 3), 1},
		{"i32.lt_s", "i32 i32", "i32", u(3, 3), 0},
		{"i32.ge_u", "i32 i32", "i32", u(3, 3), 1},
		{"i32.gt_u", "i32 i32", "i32", u(3, 3), 0},
		{"i64.eqz", "i64", "i32", u(0), 1},
		{"i64.eq", "i64 i64", "i32", u(a64, b64), 0},
		{"i64.ne", "i64 i64", "i32", u(a64, b64), 1},
		{"i64.lt_s", "i64 i64", "i32", u(a64, b64), 1},
		{"i64.lt_u", "i64 i64", "i32", u(a64, b64), 0},
		{"i64.gt_s", "i64 i64", "i32", u(a64, b64), 0},
		{"i64.gt_u", "i64 i64", "i32", u(a64, b64), 1},
		{"i64.le_s", "i64 i64", "i32", u(a64, b64), 1},
		{"i64.le_u", "i64 i64", "i32", u(a64, b64), 0},
		{"i64.ge_s", "i64 i64", "i32", u(a64, b64), 0},
		{"i64.ge_u", "i64 i64", "i32", u(a64, b64), 1},
		{"i64.le_u", "i64 i64", "i32", u(3, 3), 1},
		{"i64.lt_u", "i64 i64", "i32", u(3, 3), 0},
		{"f32.eq", "f32 f32", "i32", u(f32(fa), f32(fb)), 0},
		{"f32.ne", "f32 f32", "i32", u(f32(fa), f32(fb)), 1},
		{"f32.lt", "f32 f32", "i32", u(f32(fa), f32(fb)), 1},
		{"f32.gt", "f32 f32", "i32", u(f32(fa), f32(fb)), 0},
		{"f32.le", "f32 f32", "i32", u(f32(fa), f32(fb)), 1},
		{"f32.ge", "f32 f32", "i32", u(f32(fa), f32(fb)), 0},
		{"f32.le", "f32 f32", "i32", u(f32(fb), f32(fb)), 1},
		{"f32.lt", "f32 f32", "i32", u(f32(fb), f32(fb)), 0},
		{"f64.eq", "f64 f64", "i32", u(f64(da), f64(db)), 0},
		{"f64.ne", "f64 f64", "i32", u(f64(da), f64(db)), 1},
		{"f64.lt", "f64 f64", "i32", u(f64(da), f64(db)), 1},
		{"f64.gt", "f64 f64", "i32", u(f64(da), f64(db)), 0},
		{"f64.le", "f64 f64", "i32", u(f64(da), f64(db)), 1},
		{"f64.ge", "f64 f64", "i32", u(f64(da), f64(db)), 0},
		{"f64.ge", "f64 f64", "i32", u(f64(db), f64(db)), 1},
		{"f64.gt", "f64 f64", "i32", u(f64(db), f64(db)), 0},
		{"i32.clz", "i32", "i32", u(0x00010000), 15},
		{"i32.ctz", "i32", "i32", u(0x00010000), 16},
		{"i32.popcnt", "i32", "i32", u(0xf0f00001), 9},
		{"i32.add", "i32 i32", "i32", u(uint64(a32), uint64(b32)), uint64(a32 + b32)},
		{"i32.sub", "i32 i32", "i32", u(uint64(a32), uint64(b32)), uint64(a32 - b32)},
		{"i32.mul", "i32 i32", "i32", u(uint64(a32), uint64(b32)), uint64(a32 * b32)},
		{"i32.div_s", "i32 i32", "i32", u(uint64(a32), uint64(b32)), uint64(uint32(m16 / 3))},
		{"i32.div_u", "i32 i32", "i32", u(uint64(a32), uint64(b32)), uint64(a32 / b32)},
		{"i32.rem_s", "i32 i32", "i32", u(uint64(a32), uint64(b32)), uint64(uint32(m16 % 3))},
		{"i32.rem_u", "i32 i32", "i32", u(uint64(a32), uint64(b32)), uint64(a32 % b32)},
		{"i32.and", "i32 i32", "i32", u(uint64(a32), 0x35), 0x30},
		{"i32.or", "i32 i32", "i32", u(0x50, 0x35), 0x75},
		{"i32.xor", "i32 i32", "i32", u(0x50, 0x35), 0x65},
		{"i32.shl", "i32 i32", "i32", u(uint64(a32), 3), uint64(a32 << 3)},
		{"i32.shr_s", "i32 i32", "i32", u(uint64(a32), 3), 0xfffffffe},
		{"i32.shr_u", "i32 i32", "i32", u(uint64(a32), 3), uint64(a32 >> 3)},
		{"i32.rotl", "i32 i32", "i32", u(0x80000001, 4), uint64(bits.RotateLeft32(0x80000001, 4))},
		{"i32.rotr", "i32 i32", "i32", u(0x80000001, 4), uint64(bits.RotateLeft32(0x80000001, -4))},
		{"i64.clz", "i64", "i64", u(0x0001000000000000), 15},
		{"i64.ctz", "i64", "i64", u(0x0001000000000000), 48},
		{"i64.popcnt", "i64", "i64", u(0xf0f0000100000001), 10},
		{"i64.add", "i64 i64", "i64", u(a64, b64), a64 + b64},
		{"i64.sub", "i64 i64", "i64", u(a64, b64), a64 - b64},
		{"i64.mul", "i64 i64", "i64", u(a64, b64), a64 * b64},
		{"i64.div_s", "i64 i64", "i64", u(a64, b64), uint64(m16l / 3)},
		{"i64.div_u", "i64 i64", "i64", u(a64, b64), a64 / b64},
		{"i64.rem_s", "i64 i64", "i64", u(a64, b64), uint64(m16l % 3)},
		{"i64.rem_u", "i64 i64", "i64", u(a64, b64), a64 % b64},
		{"i64.and", "i64 i64", "i64", u(a64, 0x35), 0x30},
		{"i64.or", "i64 i64", "i64", u(0x50, 0x35), 0x75},
		{"i64.xor", "i64 i64", "i64", u(0x50, 0x35), 0x65},
		{"i64.shl", "i64 i64", "i64", u(a64, 3), a64 << 3},
		{"i64.shr_s", "i64 i64", "i64", u(a64, 3), 0xfffffffffffffffe},
		{"i64.shr_u", "i64 i64", "i64", u(a64, 3), a64 >> 3},
		{"i64.rotl", "i64 i64", "i64", u(0x8000000000000001, 4), bits.RotateLeft64(0x8000000000000001, 4)},
		{"i64.rotr", "i64 i64", "i64", u(0x8000000000000001, 4), bits.RotateLeft64(0x8000000000000001, -4)},
		{"f32.abs", "f32", "f32", u(f32(fa)), f32(2.5)},
		{"f32.neg", "f32", "f32", u(f32(fa)), f32(2.5)},
		{"f32.ceil", "f32", "f32", u(f32(fa)), f32(-2)},
		{"f32.floor", "f32", "f32", u(f32(fa)), f32(-3)},
		{"f32.trunc", "f32", "f32", u(f32(-2.7)), f32(-2)},
		{"f32.nearest", "f32", "f32", u(f32(fa)), f32(-2)},
		{"f32.nearest", "f32", "f32", u(f32(-2.7)), f32(-3)},
		{"f32.sqrt", "f32", "f32", u(f32(6.25)), f32(2.5)},
		{"f32.add", "f32 f32", "f32", u(f32(fa), f32(fb)), f32(-1)},
		{"f32.sub", "f32 f32", "f32", u(f32(fa), f32(fb)), f32(-4)},
		{"f32.mul", "f32 f32", "f32", u(f32(fa), f32(fb)), f32(-3.75)},
		{"f32.div", "f32 f32", "f32", u(f32(fa), f32(fb)), f32(fa / fb)},
		{"f32.min", "f32 f32", "f32", u(f32(fa), f32(fb)), f32(fa)},
		{"f32.max", "f32 f32", "f32", u(f32(fa), f32(fb)), f32(fb)},
		{"f32.copysign", "f32 f32", "f32", u(f32(fa), f32(fb)), f32(2.5)},
		{"f64.abs", "f64", "f64", u(f64(da)), f64(2.5)},
		{"f64.neg", "f64", "f64", u(f64(da)), f64(2.5)},
		{"f64.ceil", "f64", "f64", u(f64(da)), f64(-2)},
		{"f64.floor", "f64", "f64", u(f64(da)), f64(-3)},
		{"f64.trunc", "f64", "f64", u(f64(-2.7)), f64(-2)},
		{"f64.nearest", "f64", "f64", u(f64(da)), f64(-2)},
		{"f64.nearest", "f64", "f64", u(f64(-2.7)), f64(-3)},
		{"f64.sqrt", "f64", "f64", u(f64(6.25)), f64(2.5)},
		{"f64.add", "f64 f64", "f64", u(f64(da), f64(db)), f64(-1)},
		{"f64.sub", "f64 f64", "f64", u(f64(da), f64(db)), f64(-4)},
		{"f64.mul", "f64 f64", "f64", u(f64(da), f64(db)), f64(-3.75)},
		{"f64.div", "f64 f64", "f64", u(f64(da), f64(db)), f64(da / db)},
		{"f64.min", "f64 f64", "f64", u(f64(da), f64(db)), f64(da)},
		{"f64.max", "f64 f64", "f64", u(f64(da), f64(db)), f64(db)},
		{"f64.copysign", "f64 f64", "f64", u(f64(da), f64(db)), f64(2.5)},
		{"i32.wrap_i64", "i64", "i32", u(0x1234567890abcdef), 0x90abcdef},
		{"i32.trunc_f32_s", "f32", "i32", u(f32(-2.7)), uint64(uint32(0xfffffffe))},
		{"i32.trunc_f32_u", "f32", "i32", u(f32(3e9)), 3000000000},
		{"i32.trunc_f64_s", "f64", "i32", u(f64(-2.7)), uint64(uint32(0xfffffffe))},
		{"i32.trunc_f64_u", "f64", "i32", u(f64(3e9)), 3000000000},
		{"i64.extend_i32_s", "i32", "i64", u(uint64(a32)), a64},
		{"i64.extend_i32_u", "i32", "i64", u(uint64(a32)), uint64(a32)},
		{"i64.trunc_f32_s", "f32", "i64", u(f32(-2.7)), 0xfffffffffffffffe},
		{"i64.trunc_f32_u", "f32", "i64", u(f32(1e19)), uint64(float32(1e19))},
		{"i64.trunc_f64_s", "f64", "i64", u(f64(-2.7)), 0xfffffffffffffffe},
		{"i64.trunc_f64_u", "f64", "i64", u(f64(1e19)), 10000000000000000000},
		{"f32.convert_i32_s", "i32", "f32", u(uint64(a32)), f32(-16)},
		{"f32.convert_i32_u", "i32", "f32", u(uint64(a32)), f32(float32(a32))},
		{"f32.convert_i64_s", "i64", "f32", u(a64), f32(-16)},
		{"f32.convert_i64_u", "i64", "f32", u(a64), f32(float32(a64))},
		{"f32.demote_f64", "f64", "f32", u(f64(0.1)), f32(float32(0.1))},
		{"f64.convert_i32_s", "i32", "f64", u(uint64(a32)), f64(-16)},
		{"f64.convert_i32_u", "i32", "f64", u(uint64(a32)), f64(float64(a32))},
		{"f64.convert_i64_s", "i64", "f64", u(a64), f64(-16)},
		{"f64.convert_i64_u", "i64", "f64", u(a64), f64(float64(a64))},
		{"f64.promote_f32", "f32", "f64", u(f32(0.1)), f64(float64(float32(0.1)))},
		{"i32.reinterpret_f32", "f32", "i32", u(f32(1.5)), f32(1.5)},
		{"i64.reinterpret_f64", "f64", "i64", u(f64(1.5)), f64(1.5)},
		{"f32.reinterpret_i32", "i32", "f32", u(f32(1.5)), f32(1.5)},
		{"f64.reinterpret_i64", "i64", "f64", u(f64(1.5)), f64(1.5)},
		// extensions that may be unsupported
		{"i32.extend8_s", "i32", "i32", u(0x80), 0xffffff80},
		{"i32.extend16_s", "i32", "i32", u(0x8000), 0xffff8000},
		{"i64.extend8_s", "i64", "i64", u(0x80), 0xffffffffffffff80},
		{"i64.extend16_s", "i64", "i64", u(0x8000), 0xffffffffffff8000},
		{"i64.extend32_s", "i64", "i64", u(0x80000000), 0xffffffff80000000},
		{"i32.trunc_sat_f32_s", "f32", "i32", u(f32(1e20)), 0x7fffffff},
		{"i32.trunc_sat_f64_u", "f64", "i32", u(f64(-1)), 0},
		{"i64.trunc_sat_f64_s", "f64", "i64", u(f64(math.Inf(1))), 0x7fffffffffffffff},
	}
	_ = b2u
	var cases []tcase
	for i, op := range ops {
		var sb strings.Builder
		sb.WriteString("(module (func $f (export \"f\")")
		ins := strings.Fields(op.in)
		for _, p := range ins {
			fmt.Fprintf(&sb, " (param %s)", p)
		}
		fmt.Fprintf(&sb, " (result %s)", op.out)
		for j := range ins {
			fmt.Fprintf(&sb, " local.get %d", j)
		}
		fmt.Fprintf(&sb, " %s))", op.name)
		cases = append(cases, tcase{name: fmt.Sprintf("op_%d_%s", i, op.name), wat: sb.String(), calls: []call{{fn: "f", args: op.args, want: u(op.want)}}})
	}
	runCases(t, cases)
}
