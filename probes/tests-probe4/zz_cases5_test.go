package zz_probe

import "testing"

var casesStrip = []tcase{
	{
		name: "strip_dead_removed_live_kept",
		wat: `(module
  (type $r (func (result i32)))
  (table 2 funcref)
  (global $g (mut i32) (i32.const 0))
  (func $dead1 (result i32) call $dead2)
  (func $dead2 (result i32) call $dead1)
  (func $viaelem (result i32) i32.const 7)
  (elem (i32.const 1) $viaelem)
  (func $viastart i32.const 5 global.set $g)
  (start $viastart)
  (func $viaexport (export "e") (result i32) call $helper)
  (func $helper (result i32)
    block (result i32)
      loop (result i32)
        i32.const 1
        if (result i32)
          call $deep1
        else
          call $deep2
        end
      end
    end)
  (func $deep1 (result i32) global.get $g)
  (func $deep2 (result i32) i32.const 0)
  (func $dead3 (result i32) call $helper)
  (func $ci (export "ci") (result i32) i32.const 1 call_indirect (type $r)))`,
		calls: []call{{fn: "e", want: u(5)}, {fn: "ci", want: u(7)}},
	},
	{
		name: "strip_export_by_index_with_dead_before",
		wat: `(module
  (func $dead (result i32) i32.const 1)
  (func $live (result i32) i32.const 2)
  (export "x" (func 1)))`,
		calls: []call{{fn: "x", want: u(2)}},
	},
	{
		name: "strip_elem_by_index",
		wat: `(module
  (type $r (func (result i32)))
  (table 1 funcref)
  (func $dead (result i32) i32.const 1)
  (func $live (result i32) i32.const 2)
  (elem (i32.const 0) 1)
  (func $f (export "f") (result i32) i32.const 0 call_indirect (type $r)))`,
		calls: []call{{fn: "f", want: u(2)}},
	},
	{
		name: "strip_reexported_import",
		env:  envFuncs,
		wat: `(module
  (import "env" "f1" (func $i1 (result i32)))
  (export "x" (func $i1)))`,
		calls: []call{{fn: "x", want: u(100)}},
	},
	{
		name: "strip_import_in_elem",
		env:  envFuncs,
		wat: `(module
  (type $r (func (result i32)))
  (import "env" "f1" (func $i1 (result i32)))
  (table 1 funcref)
  (elem (i32.const 0) $i1)
  (func $f (export "f") (result i32) i32.const 0 call_indirect (type $r)))`,
		calls: []call{{fn: "f", want: u(100)}},
	},
	{
		name: "strip_unused_import_removed_keeps_behaviour",
		env:  envFuncs,
		wat: `(module
  (import "env" "f1" (func $i1 (result i32)))
  (import "env" "f2" (func $i2 (result i32)))
  (import "env" "g0" (global $g i32))
  (func $f (export "f") (result i32) call $i2 global.get $g i32.add))`,
		calls: []call{{fn: "f", want: u(277)}},
	},
	{
		name: "strip_unnamed_funcs_mixed",
		wat: `(module
  (func (result i32) i32.const 1)
  (func $live (export "f") (result i32) i32.const 2)
  (func (result i32) i32.const 3))`,
		calls: []call{{fn: "f", want: u(2)}},
	},
	{
		name: "strip_unnamed_exported_by_index_after_named_dead",
		wat: `(module
  (func $dead (result i32) i32.const 1)
  (func (result i32) i32.const 2)
  (export "x" (func 1)))`,
		calls: []call{{fn: "x", want: u(2)}},
	},
	{
		name: "strip_export_empty_name",
		wat: `(module
  (func $g (result i32) i32.const 2)
  (export "" (func $g)))`,
		calls: []call{{fn: "", want: u(2)}},
	},
	{
		name: "strip_start_inline_extension",
		wat: `(module
  (global $g (mut i32) (i32.const 0))
  (func $init (start) i32.const 9 global.set $g)
  (func $f (export "f") (result i32) global.get $g))`,
		calls: []call{{fn: "f", want: u(9)}},
	},
	{
		name: "strip_call_in_else_only_and_nested_loop",
		wat: `(module
  (func $a (result i32) i32.const 1)
  (func $b (result i32) i32.const 2)
  (func $c (result i32) i32.const 3)
  (func $f (export "f") (param i32) (result i32)
    local.get 0
    if (result i32)
      i32.const 0
    else
      block (result i32)
        loop (result i32)
          block (result i32)
            call $b
          end
        end
      end
    end))`,
		calls: []call{{fn: "f", args: u(0), want: u(2)}},
	},
	{
		name: "strip_numeric_type_index_after_removal",
		wat: `(module
  (table 1 funcref)
  (elem (i32.const 0) $live)
  (func $dead (param i64 i64))
  (func $live (param i32) (result i32) local.get 0)
  (func $f (export "f") (result i32) i32.const 4 i32.const 0 call_indirect (type 1)))`,
		calls: []call{{fn: "f", want: u(4)}},
	},
	{
		name: "strip_keeps_everything_else",
		env:  envFuncs,
		wat: `(module $m
  (import "env" "mem" (memory 1))
  (type $r (func (result i32)))
  (table $t 3 5 funcref)
  (global $g (export "gg") (mut i32) (i32.const 4))
  (data $d (i32.const 8) "xy")
  (func $dead)
  (func $f (export "f") (result i32) i32.const 9 i32.load8_u))`,
		calls:   []call{{fn: "f", want: u('y')}},
		globals: map[string]uint64{"gg": 4},
	},
	{
		name: "export_name_nonprintable_inline",
		wat: `(module
  (func $f (export "a\01b") (result i32) i32.const 1))`,
		calls: []call{{fn: "a\x01b", want: u(1)}},
	},
	{
		name: "import_names_nonprintable",
		env: `(module (func $f (result i32) i32.const 3) (export "a\01b\7f" (func $f)))`,
		wat: `(module
  (import "env" "a\01b\7f" (func $i (result i32)))
  (func $f (export "f") (result i32) call $i))`,
		calls: []call{{fn: "f", want: u(3)}},
	},
	{
		name: "import_names_quote_backslash_unicode",
		env: `(module (func $f (result i32) i32.const 3) (export "q\"b\\é" (func $f)))`,
		wat: `(module
  (import "env" "q\"b\\é" (func $i (result i32)))
  (func $f (export "f") (result i32) call $i))`,
		calls: []call{{fn: "f", want: u(3)}},
	},
	{
		name: "data_name_numeric_looking",
		wat: `(module
  (memory 1)
  (data $0 (i32.const 0) "a")
  (func $l (export "l") (result i32) i32.const 0 i32.load8_u))`,
		calls: []call{{fn: "l", want: u('a')}},
	},
	{
		name: "memory_table_names_numeric_looking",
		wat: `(module
  (memory $0 1)
  (table $0 1 funcref)
  (export "m" (memory $0))
  (export "t" (table $0)))`,
		mems: []string{"m"},
	},
	{
		name: "module_name_numeric_looking",
		wat:  `(module $0 (func $f (export "f")))`,
		calls: []call{{fn: "f"}},
	},
	{
		name: "param_named_mixed_with_unnamed_group",
		wat: `(module
  (func $f (export "f") (param $a i32) (param i32 i32) (param $d i32) (result i32)
    local.get $a i32.const 1000 i32.mul
    local.get 1 i32.const 100 i32.mul i32.add
    local.get 2 i32.const 10 i32.mul i32.add
    local.get $d i32.add))`,
		calls: []call{{fn: "f", args: u(1, 2, 3, 4), want: u(1234)}},
	},
	{
		name: "params_after_results_and_locals_interleaved",
		wat: `(module
  (func $f (export "f") (result i32) (param $a i32) (local $x i32) (param $b i32)
    local.get $b))`,
		calls: []call{{fn: "f", args: u(1, 2), want: u(2)}},
	},
	{
		name: "import_params_named",
		env:  envFuncs,
		wat: `(module
  (import "env" "add1" (func $add1 (param $x i32) (result i32)))
  (func $f (export "f") (result i32) i32.const 4 call $add1))`,
		calls: []call{{fn: "f", want: u(5)}},
	},
	{
		name: "type_with_named_params_and_multi",
		wat: `(module
  (type $t (func (param $x i32) (param i64 f32) (result i32 i32)))
  (table 1 funcref)
  (elem (i32.const 0) $g)
  (func $g (param i32 i64 f32) (result i32 i32) local.get 0 local.get 0)
  (func $f (export "f") (result i32 i32) i32.const 3 i64.const 0 f32.const 0 i32.const 0 call_indirect (type $t)))`,
		calls: []call{{fn: "f", want: u(3, 3)}},
	},
	{
		name: "many_funcs_index_over_127",
		wat:  manyFuncs(),
		calls: []call{{fn: "f", want: u(129)}, {fn: "g", want: u(200)}},
	},
	{
		name: "many_locals_index_over_127",
		wat:  manyLocals(),
		calls: []call{{fn: "f", want: u(42)}},
	},
}

func manyFuncs() string {
	s := "(module\n"
	for i := 0; i < 201; i++ {
		s += "  (func $f" + itoa(i) + " (result i32) i32.const " + itoa(i) + ")\n"
	}
	s += "  (func $f (export \"f\") (result i32) call $f129)\n"
	s += "  (export \"g\" (func 200))\n"
	s += ")"
	return s
}

func manyLocals() string {
	s := "(module\n  (func $f (export \"f\") (result i32)\n"
	for i := 0; i < 200; i++ {
		ty := "i32"
		if i%3 == 1 {
			ty = "i64"
		}
		s += "    (local $l" + itoa(i) + " " + ty + ")\n"
	}
	s += "    i32.const 42 local.set $l150 i64.const 1 local.set 151 local.get 150))"
	return s
}

func itoa(i int) string {
	if i == 0 {
		return "0"
	}
	s := ""
	for i > 0 {
		s = string(rune('0'+i%10)) + s
		i /= 10
	}
	return s
}

func TestProbe_Strip(t *testing.T) { runCases(t, casesStrip) }
