package zz_probe

import (
	"encoding/binary"
	"fmt"
	"strings"
	"testing"
)

// ---- loads and stores, every offset=/align= combination ----

type memop struct {
	name    string
	bytes   int  // access width
	natural int  // natural alignment
	valTy   string
	signed  bool
	isStore bool
}

var loadOps = []memop{
	{"i32.load", 4, 4, "i32", false, false},
	{"i64.load", 8, 8, "i64", false, false},
	{"f32.load", 4, 4, "f32", false, false},
	{"f64.load", 8, 8, "f64", false, false},
	{"i32.load8_s", 1, 1, "i32", true, false},
	{"i32.load8_u", 1, 1, "i32", false, false},
	{"i32.load16_s", 2, 2, "i32", true, false},
	{"i32.load16_u", 2, 2, "i32", false, false},
	{"i64.load8_s", 1, 1, "i64", true, false},
	{"i64.load8_u", 1, 1, "i64", false, false},
	{"i64.load16_s", 2, 2, "i64", true, false},
	{"i64.load16_u", 2, 2, "i64", false, false},
	{"i64.load32_s", 4, 4, "i64", true, false},
	{"i64.load32_u", 4, 4, "i64", false, false},
}

var storeOps = []memop{
	{"i32.store", 4, 4, "i32", false, true},
	{"i64.store", 8, 8, "i64", false, true},
	{"f32.store", 4, 4, "f32", false, true},
	{"f64.store", 8, 8, "f64", false, true},
	{"i32.store8", 1, 1, "i32", false, true},
	{"i32.store16", 2, 2, "i32", false, true},
	{"i64.store8", 1, 1, "i64", false, true},
	{"i64.store16", 2, 2, "i64", false, true},
	{"i64.store32", 4, 4, "i64", false, true},
}

// memory image at 64..79: 0x81,0x92,0xa3,0xb4,0xc5,0xd6,0xe7,0xf8, 0x09,...
var memImage = []byte{0x81, 0x92, 0xa3, 0xb4, 0xc5, 0xd6, 0xe7, 0xf8, 0x09, 0x1a, 0x2b, 0x3c, 0x4d, 0x5e, 0x6f, 0x70}

func loadExpect(op memop, at int) uint64 {
	b := make([]byte, 8)
	copy(b, memImage[at:at+op.bytes])
	v := binary.LittleEndian.Uint64(b)
	if op.signed {
		shift := uint(64 - 8*op.bytes)
		v = uint64(int64(v<<shift) >> shift)
	}
	if op.valTy == "i32" || op.valTy == "f32" {
		v &= 0xffffffff
	}
	return v
}

func genLoadCases() []tcase {
	var out []tcase
	for _, op := range loadOps {
		var sb strings.Builder
		var calls []call
		sb.WriteString("(module\n  (memory 1)\n  (data (i32.const 64) \"")
		for _, b := range memImage {
			fmt.Fprintf(&sb, "\\%02x", b)
		}
		sb.WriteString("\")\n")
		n := 0
		for _, off := range []int{-1, 0, 1, 3, 65} { // -1: no offset attribute
			for al := 0; al <= op.natural; al = nextAlign(al) { // 0: no align attribute
				imm := ""
				effOff := 0
				if off >= 0 {
					imm += fmt.Sprintf(" offset=%d", off)
					effOff = off
				}
				if al > 0 {
					imm += fmt.Sprintf(" align=%d", al)
				}
				fname := fmt.Sprintf("l%d", n)
				n++
				// address operand chosen so that effective address is 65 (inside the image, unaligned)
				addr := 65 - effOff
				fmt.Fprintf(&sb, "  (func $%s (export \"%s\") (result %s) i32.const %d %s%s)\n", fname, fname, op.valTy, addr, op.name, imm)
				calls = append(calls, call{fn: fname, want: u(loadExpect(op, 1))})
			}
		}
		sb.WriteString(")")
		out = append(out, tcase{name: "load_" + op.name, wat: sb.String(), calls: calls})
	}
	return out
}

func nextAlign(a int) int {
	if a == 0 {
		return 1
	}
	return a * 2
}

func genStoreCases() []tcase {
	var out []tcase
	for _, op := range storeOps {
		var sb strings.Builder
		var calls []call
		sb.WriteString("(module\n  (memory 1)\n")
		n := 0
		var constv string
		var raw uint64
		switch op.valTy {
		case "i32":
			constv, raw = "i32.const 0x11223344", 0x11223344
		case "i64":
			constv, raw = "i64.const 0x1122334455667788", 0x1122334455667788
		case "f32":
			constv, raw = "f32.const 1.5", f32(1.5)
		case "f64":
			constv, raw = "f64.const 1.5", f64(1.5)
		}
		mask := uint64(1)<<(8*uint(op.bytes)) - 1
		if op.bytes == 8 {
			mask = ^uint64(0)
		}
		for _, off := range []int{-1, 0, 2, 70} {
			for al := 0; al <= op.natural; al = nextAlign(al) {
				imm := ""
				effOff := 0
				if off >= 0 {
					imm += fmt.Sprintf(" offset=%d", off)
					effOff = off
				}
				if al > 0 {
					imm += fmt.Sprintf(" align=%d", al)
				}
				fname := fmt.Sprintf("s%d", n)
				base := 128 + 16*n
				n++
				addr := base + 1 - effOff
				// store, then read back 8 bytes at base+1
				fmt.Fprintf(&sb, "  (func $%s (export \"%s\") (result i64) i32.const %d %s %s%s i32.const %d i64.load align=1)\n",
					fname, fname, addr, constv, op.name, imm, base+1)
				calls = append(calls, call{fn: fname, want: u(raw & mask)})
			}
		}
		sb.WriteString(")")
		out = append(out, tcase{name: "store_" + op.name, wat: sb.String(), calls: calls})
	}
	return out
}

func TestProbe_LoadStore(t *testing.T) {
	runCases(t, genLoadCases())
	runCases(t, genStoreCases())
}

var casesMemory = []tcase{
	{
		name: "memory_no_max_grow",
		wat: `(module
  (memory 1)
  (func $s (export "size") (result i32) memory.size)
  (func $g (export "grow") (param i32) (result i32) local.get 0 memory.grow))`,
		calls: []call{{fn: "size", want: u(1)}, {fn: "grow", args: u(2), want: u(1)}, {fn: "size", want: u(3)}},
	},
	{
		name: "memory_with_max_grow",
		wat: `(module
  (memory $m 1 2)
  (func $s (export "size") (result i32) memory.size)
  (func $g (export "grow") (param i32) (result i32) local.get 0 memory.grow))`,
		calls: []call{{fn: "grow", args: u(1), want: u(1)}, {fn: "grow", args: u(1), want: u(0xffffffff)}, {fn: "size", want: u(2)}},
	},
	{
		name: "memory_zero_max_zero",
		wat: `(module
  (memory 0 0)
  (func $s (export "size") (result i32) memory.size)
  (func $g (export "grow") (param i32) (result i32) local.get 0 memory.grow))`,
		calls: []call{{fn: "size", want: u(0)}, {fn: "grow", args: u(1), want: u(0xffffffff)}, {fn: "size", want: u(0)}},
	},
	{
		name: "memory_zero_no_max",
		wat: `(module
  (memory 0)
  (func $s (export "size") (result i32) memory.size)
  (func $g (export "grow") (param i32) (result i32) local.get 0 memory.grow))`,
		calls: []call{{fn: "size", want: u(0)}, {fn: "grow", args: u(1), want: u(0)}, {fn: "size", want: u(1)}},
	},
	{
		name: "imported_memory_with_max",
		env:  envFuncs,
		wat: `(module
  (import "env" "mem" (memory $m 1 2))
  (func $s (export "size") (result i32) memory.size)
  (func $l (export "l") (result i32) i32.const 3 i32.load8_u))`,
		calls: []call{{fn: "size", want: u(1)}, {fn: "l", want: u('M')}},
	},
	{
		name: "imported_memory_max_requires_provider_max",
		env: `(module (memory $mem 1) (export "mem" (memory 0)))`,
		wat: `(module
  (import "env" "mem" (memory 1 2)))`,
		instErr: true,
	},
	{
		name: "data_escapes",
		wat: `(module
  (memory 1)
  (data (i32.const 0) "a\00\5c\22\n\t\\\"\r\'")
  (data $named (i32.const 16) "\e9\E9é")
  (data (i32.const 32) "")
  (data (i32.const 40) "\u{e9}\u{4e2d}")
  (func $l (export "l") (param i32) (result i32) local.get 0 i32.load8_u))`,
		calls: []call{
			{fn: "l", args: u(0), want: u('a')}, {fn: "l", args: u(1), want: u(0)}, {fn: "l", args: u(2), want: u(0x5c)},
			{fn: "l", args: u(3), want: u(0x22)}, {fn: "l", args: u(4), want: u(10)}, {fn: "l", args: u(5), want: u(9)},
			{fn: "l", args: u(6), want: u(0x5c)}, {fn: "l", args: u(7), want: u(0x22)}, {fn: "l", args: u(8), want: u(13)},
			{fn: "l", args: u(9), want: u(0x27)}, {fn: "l", args: u(10), want: u(0)},
			{fn: "l", args: u(16), want: u(0xe9)}, {fn: "l", args: u(17), want: u(0xe9)}, {fn: "l", args: u(18), want: u(0xc3)}, {fn: "l", args: u(19), want: u(0xa9)}, {fn: "l", args: u(20), want: u(0)},
			{fn: "l", args: u(40), want: u(0xc3)}, {fn: "l", args: u(41), want: u(0xa9)}, {fn: "l", args: u(42), want: u(0xe4)}, {fn: "l", args: u(43), want: u(0xb8)}, {fn: "l", args: u(44), want: u(0xad)}, {fn: "l", args: u(45), want: u(0)},
		},
	},
	{
		name: "data_overlap_order_and_end_of_memory",
		wat: `(module
  (memory 1)
  (data (i32.const 0) "AAAA")
  (data (i32.const 2) "BB")
  (data (i32.const 65532) "WXYZ")
  (func $l (export "l") (param i32) (result i32) local.get 0 i32.load8_u))`,
		calls: []call{{fn: "l", args: u(1), want: u('A')}, {fn: "l", args: u(2), want: u('B')}, {fn: "l", args: u(65535), want: u('Z')}},
	},
	{
		name: "data_out_of_bounds_fails_instantiation",
		wat: `(module
  (memory 1)
  (data (i32.const 65534) "WXYZ"))`,
		instErr: true,
	},
	{
		name: "data_multi_string",
		wat: `(module
  (memory 1)
  (data (i32.const 0) "ab" "cd")
  (func $l (export "l") (param i32) (result i32) local.get 0 i32.load8_u))`,
		calls: []call{{fn: "l", args: u(3), want: u('d')}},
	},
	{
		name: "data_offset_keyword_and_memuse",
		wat: `(module
  (memory 1)
  (data (memory 0) (offset (i32.const 4)) "ab")
  (func $l (export "l") (param i32) (result i32) local.get 0 i32.load8_u))`,
		calls: []call{{fn: "l", args: u(5), want: u('b')}},
	},
	{
		name: "data_offset_global",
		env:  envFuncs,
		wat: `(module
  (import "env" "g0" (global $g i32))
  (memory 1)
  (data (global.get $g) "ab")
  (func $l (export "l") (param i32) (result i32) local.get 0 i32.load8_u))`,
		calls: []call{{fn: "l", args: u(78), want: u('b')}},
	},
	{
		name: "passive_data_memory_init_data_drop",
		wat: `(module
  (memory 1)
  (data $p "hello")
  (func $f (export "f") (result i32)
    i32.const 10 i32.const 1 i32.const 3 memory.init $p
    data.drop $p
    i32.const 10 i32.load8_u))`,
		calls: []call{{fn: "f", want: u('e')}},
	},
	{
		name: "memory_init_on_active_segment",
		wat: `(module
  (memory 1)
  (data (i32.const 0) "hello")
  (func $z (export "z") (result i32)
    i32.const 10 i32.const 0 i32.const 0 memory.init 0
    i32.const 1)
  (func $f (export "f") (result i32)
    i32.const 10 i32.const 1 i32.const 3 memory.init 0
    i32.const 10 i32.load8_u))`,
		calls: []call{{fn: "z", want: u(1)}, {fn: "f", trap: true}},
	},
	{
		name: "memory_copy_fill",
		wat: `(module
  (memory 1)
  (data (i32.const 0) "abcdef")
  (func $cp (export "cp") (result i32)
    i32.const 10 i32.const 1 i32.const 3 memory.copy
    i32.const 11 i32.load8_u)
  (func $fl (export "fl") (result i32)
    i32.const 20 i32.const 0x141 i32.const 4 memory.fill
    i32.const 23 i32.load8_u)
  (func $oob (export "oob")
    i32.const 65535 i32.const 0 i32.const 2 memory.fill))`,
		calls: []call{{fn: "cp", want: u('c')}, {fn: "fl", want: u(0x41)}, {fn: "oob", trap: true}},
	},
	{
		name: "memory64_text",
		wat: `(module
  (memory i32 1)
  (func $s (export "size") (result i32) memory.size))`,
		calls: []call{{fn: "size", want: u(1)}},
	},
}

func TestProbe_Memory(t *testing.T) { runCases(t, casesMemory) }

var casesTable = []tcase{
	{
		name: "elem_several_entries_call_indirect_forms",
		wat: `(module
  (type $ii (func (param i32) (result i32)))
  (type $v (func))
  (table $t 4 funcref)
  (elem (i32.const 1) $inc $dbl)
  (elem (i32.const 3) $inc)
  (func $inc (param i32) (result i32) local.get 0 i32.const 1 i32.add)
  (func $dbl (param i32) (result i32) local.get 0 i32.const 2 i32.mul)
  (func $a (export "a") (param i32) (result i32) i32.const 10 local.get 0 call_indirect (type $ii))
  (func $b (export "b") (param i32) (result i32) i32.const 10 local.get 0 call_indirect $t (type $ii))
  (func $c (export "c") (param i32) (result i32) i32.const 10 local.get 0 call_indirect 0 (type 0))
  (func $d (export "d") (param i32) local.get 0 call_indirect (type $v)))`,
		calls: []call{
			{fn: "a", args: u(1), want: u(11)}, {fn: "a", args: u(2), want: u(20)}, {fn: "a", args: u(3), want: u(11)},
			{fn: "a", args: u(0), trap: true}, {fn: "a", args: u(4), trap: true},
			{fn: "b", args: u(2), want: u(20)}, {fn: "c", args: u(2), want: u(20)},
			{fn: "d", args: u(1), trap: true},
		},
	},
	{
		name: "call_indirect_inline_sig",
		wat: `(module
  (table 1 funcref)
  (elem (i32.const 0) $inc)
  (func $inc (param i32) (result i32) local.get 0 i32.const 1 i32.add)
  (func $a (export "a") (result i32) i32.const 10 i32.const 0 call_indirect (param i32) (result i32)))`,
		calls: []call{{fn: "a", want: u(11)}},
	},
	{
		name: "call_indirect_type_plus_inline_sig",
		wat: `(module
  (type $ii (func (param i32) (result i32)))
  (table 1 funcref)
  (elem (i32.const 0) $inc)
  (func $inc (param i32) (result i32) local.get 0 i32.const 1 i32.add)
  (func $a (export "a") (result i32) i32.const 10 i32.const 0 call_indirect (type $ii) (param i32) (result i32)))`,
		calls: []call{{fn: "a", want: u(11)}},
	},
	{
		name: "numeric_type_index_with_duplicate_types",
		wat: `(module
  (type $a (func))
  (type $b (func))
  (type $c (func (param i32) (result i32)))
  (table 1 funcref)
  (elem (i32.const 0) $inc)
  (func $inc (param i32) (result i32) local.get 0 i32.const 1 i32.add)
  (func $f (export "f") (result i32) i32.const 5 i32.const 0 call_indirect (type 2)))`,
		calls: []call{{fn: "f", want: u(6)}},
	},
	{
		name: "numeric_type_index_type_declared_after_funcs",
		wat: `(module
  (func $inc (param i32) (result i32) local.get 0 i32.const 1 i32.add)
  (func $v)
  (table 1 funcref)
  (elem (i32.const 0) $inc)
  (type $x (func (param i64)))
  (type $c (func (param i32) (result i32)))
  (func $f (export "f") (result i32) i32.const 5 i32.const 0 call_indirect (type 1)))`,
		calls: []call{{fn: "f", want: u(6)}},
	},
	{
		name: "elem_by_index_and_func_keyword",
		wat: `(module
  (type $r (func (result i32)))
  (table 2 funcref)
  (func $a (result i32) i32.const 1)
  (func $b (result i32) i32.const 2)
  (elem (i32.const 0) 1 0)
  (func $f (export "f") (param i32) (result i32) local.get 0 call_indirect (type $r)))`,
		calls: []call{{fn: "f", args: u(0), want: u(2)}, {fn: "f", args: u(1), want: u(1)}},
	},
	{
		name: "elem_func_keyword",
		wat: `(module
  (type $r (func (result i32)))
  (table 2 funcref)
  (func $a (result i32) i32.const 1)
  (elem (i32.const 0) func $a)
  (func $f (export "f") (param i32) (result i32) local.get 0 call_indirect (type $r)))`,
		calls: []call{{fn: "f", args: u(0), want: u(1)}},
	},
	{
		name: "elem_named_segment",
		wat: `(module
  (type $r (func (result i32)))
  (table 2 funcref)
  (func $a (result i32) i32.const 1)
  (elem $seg (i32.const 1) $a)
  (func $f (export "f") (param i32) (result i32) local.get 0 call_indirect (type $r)))`,
		calls: []call{{fn: "f", args: u(1), want: u(1)}},
	},
	{
		name: "elem_with_imported_func",
		env:  envFuncs,
		wat: `(module
  (type $r (func (result i32)))
  (import "env" "f1" (func $i1 (result i32)))
  (import "env" "f2" (func $i2 (result i32)))
  (table 2 funcref)
  (func $a (result i32) i32.const 1)
  (elem (i32.const 0) $i2 $a)
  (func $f (export "f") (param i32) (result i32) local.get 0 call_indirect (type $r)))`,
		calls: []call{{fn: "f", args: u(0), want: u(200)}, {fn: "f", args: u(1), want: u(1)}},
	},
	{
		// the embedded engine deliberately ignores out-of-range active element
		// segments (internal/3rdparty/wazero/internal/wasm/store.go applyTableInits),
		// so no instantiation error is expected here
		name: "elem_out_of_bounds",
		wat: `(module
  (table 1 funcref)
  (func $a)
  (elem (i32.const 1) $a))`,
	},
	{
		name: "table_with_max_and_get_set",
		wat: `(module
  (type $r (func (result i32)))
  (table $t 2 8 funcref)
  (func $a (result i32) i32.const 1)
  (elem (i32.const 0) $a)
  (func $f (export "f") (param i32) (result i32) local.get 0 call_indirect (type $r))
  (func $mv (export "mv")
    i32.const 1
    i32.const 0 table.get $t
    table.set 0))`,
		calls: []call{{fn: "f", args: u(1), trap: true}, {fn: "mv"}, {fn: "f", args: u(1), want: u(1)}},
	},
	{
		name: "table_size_grow_ref",
		wat: `(module
  (table $t 2 8 funcref)
  (func $a)
  (func $f (export "f") (result i32)
    ref.func $a i32.const 1 table.grow $t drop
    ref.null func i32.const 1 table.grow $t drop
    table.size $t))`,
		calls: []call{{fn: "f", want: u(4)}},
	},
	{
		name: "table_zero_max_zero",
		wat: `(module
  (table 0 0 funcref))`,
	},
}

func TestProbe_Table(t *testing.T) { runCases(t, casesTable) }
