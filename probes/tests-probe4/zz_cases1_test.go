package zz_probe

import "testing"

const envFuncs = `(module
  (func $f1 (result i32) i32.const 100)
  (func $f2 (result i32) i32.const 200)
  (func $add1 (param i32) (result i32) local.get 0 i32.const 1 i32.add)
  (func $nop)
  (global $g0 i32 (i32.const 77))
  (global $g1 i64 (i64.const 88))
  (memory $mem 1 2)
  (data (i32.const 0) "ENVMEM")
  (export "f1" (func $f1))
  (export "f2" (func $f2))
  (export "add1" (func $add1))
  (export "nop" (func $nop))
  (export "g0" (global $g0))
  (export "g1" (global $g1))
  (export "mem" (memory 0))
)`

var casesIndex = []tcase{
	{
		name: "baseline_named",
		wat: `(module
  (func $a (result i32) i32.const 10)
  (func $b (result i32) i32.const 20)
  (func $f (export "f") (result i32) call $a call $b i32.add))`,
		calls: []call{{fn: "f", want: u(30)}},
	},
	{
		name: "func_numeric_names",
		wat: `(module
  (func $1 (result i32) i32.const 10)
  (func $0 (result i32) i32.const 20)
  (func $f (export "f") (result i32) call $1)
  (func $g (export "g") (result i32) call $0))`,
		calls: []call{{fn: "f", want: u(10)}, {fn: "g", want: u(20)}},
	},
	{
		name: "local_numeric_names",
		wat: `(module
  (func $f (export "f") (param $1 i32) (param $0 i32) (result i32) local.get $1))`,
		calls: []call{{fn: "f", args: u(7, 9), want: u(7)}},
	},
	{
		name: "global_numeric_names",
		wat: `(module
  (global $1 i32 (i32.const 10))
  (global $0 i32 (i32.const 20))
  (func $f (export "f") (result i32) global.get $1))`,
		calls: []call{{fn: "f", want: u(10)}},
	},
	{
		name: "label_numeric_names",
		wat: `(module
  (func $f (export "f") (result i32)
    block $0 (result i32)
      block $1 (result i32)
        i32.const 5
        br $0
      end
      drop
      i32.const 6
    end))`,
		calls: []call{{fn: "f", want: u(5)}},
	},
	{
		name: "type_numeric_names",
		wat: `(module
  (type $1 (func (result i32)))
  (type $0 (func (param i32) (result i32)))
  (table 1 funcref)
  (elem (i32.const 0) $k)
  (func $k (result i32) i32.const 9)
  (func $f (export "f") (result i32) i32.const 0 call_indirect (type $1)))`,
		calls: []call{{fn: "f", want: u(9)}},
	},
	{
		name: "unnamed_func_inline_export",
		wat:  `(module (func (export "f") (result i32) i32.const 1))`,
		calls: []call{{fn: "f", want: u(1)}},
	},
	{
		name: "unnamed_funcs_export_by_index",
		wat: `(module
  (func (result i32) i32.const 1)
  (func (result i32) i32.const 2)
  (export "a" (func 0))
  (export "b" (func 1)))`,
		calls: []call{{fn: "a", want: u(1)}, {fn: "b", want: u(2)}},
	},
	{
		name: "locals_by_index_and_name",
		wat: `(module
  (func $f (export "f") (param i32 i64) (param $c i32) (result i32) (local i32) (local $e i32)
    i32.const 5 local.set 3
    i32.const 6 local.set $e
    local.get 0 local.get $c i32.add local.get 3 i32.add local.get 4 i32.add))`,
		calls: []call{{fn: "f", args: u(1, 2, 3), want: u(15)}},
	},
	{
		name: "locals_all_types_unnamed",
		wat: `(module
  (func $f (export "f") (result f64) (local i32) (local i64) (local f32) (local f64)
    f64.const 2.5 local.set 3
    i64.const 7 local.set 1
    local.get 3
    local.get 1 f64.convert_i64_s f64.add))`,
		calls: []call{{fn: "f", want: u(f64(9.5))}},
	},
	{
		name: "local_multi_types_in_one_decl",
		wat: `(module
  (func $f (export "f") (result i64) (local i32 i64)
    i64.const 7 local.set 1
    local.get 1))`,
		calls: []call{{fn: "f", want: u(7)}},
	},
	{
		name: "imports_mixed_kinds_index_shift",
		env:  envFuncs,
		wat: `(module
  (import "env" "f1" (func $i1 (result i32)))
  (import "env" "g0" (global $ig i32))
  (import "env" "mem" (memory 1))
  (import "env" "f2" (func $i2 (result i32)))
  (import "env" "g1" (global $ig1 i64))
  (global $own i32 (i32.const 5))
  (func $a (result i32) i32.const 1)
  (func $b (result i32) i32.const 2)
  (export "a" (func $a)) (export "b" (func $b)) (export "i1" (func $i1)) (export "i2" (func $i2))
  (export "x2" (func 2)) (export "x3" (func 3)) (export "x0" (func 0))
  (func $c (export "c") (result i32) call $i2 call $b i32.add)
  (func $g (export "g") (result i32) global.get 0 global.get 2 i32.add)
  (func $g1 (export "g1") (result i64) global.get $ig1)
  (func $gown (export "gown") (result i32) global.get $own)
  (func $m (export "m") (result i32) i32.const 0 i32.load8_u))`,
		calls: []call{
			{fn: "a", want: u(1)}, {fn: "b", want: u(2)}, {fn: "i1", want: u(100)}, {fn: "i2", want: u(200)},
			{fn: "x2", want: u(1)}, {fn: "x3", want: u(2)}, {fn: "x0", want: u(100)},
			{fn: "c", want: u(202)}, {fn: "g", want: u(82)}, {fn: "g1", want: u(88)}, {fn: "gown", want: u(5)},
			{fn: "m", want: u('E')},
		},
	},
	{
		name: "import_unnamed_func_and_call_named",
		env:  envFuncs,
		wat: `(module
  (import "env" "f1" (func (result i32)))
  (import "env" "add1" (func $add1 (param i32) (result i32)))
  (func $f (export "f") (result i32) i32.const 4 call $add1))`,
		calls: []call{{fn: "f", want: u(5)}},
	},
	{
		name: "import_global_unnamed",
		env:  envFuncs,
		wat: `(module
  (import "env" "g0" (global i32))
  (func $f (export "f") (result i32) global.get 0))`,
		calls: []call{{fn: "f", want: u(77)}},
	},
	{
		name: "import_func_typeuse",
		env:  envFuncs,
		wat: `(module
  (type $t (func (param i32) (result i32)))
  (import "env" "add1" (func $add1 (type $t)))
  (func $f (export "f") (result i32) i32.const 4 call $add1))`,
		calls: []call{{fn: "f", want: u(5)}},
	},
	{
		name: "call_by_index",
		wat: `(module
  (func $a (result i32) i32.const 10)
  (func $f (export "f") (result i32) call 0))`,
		calls: []call{{fn: "f", want: u(10)}},
	},
	{
		name: "several_exports_one_func",
		wat: `(module
  (func $a (result i32) i32.const 10)
  (export "x" (func $a))
  (export "y" (func $a))
  (export "z" (func 0)))`,
		calls: []call{{fn: "x", want: u(10)}, {fn: "y", want: u(10)}, {fn: "z", want: u(10)}},
	},
	{
		name: "two_inline_exports_one_func",
		wat: `(module
  (func $a (export "x") (export "y") (result i32) i32.const 10))`,
		calls: []call{{fn: "x", want: u(10)}, {fn: "y", want: u(10)}},
	},
	{
		name: "inline_plus_separate_export",
		wat: `(module
  (func $a (export "x") (result i32) i32.const 10)
  (export "y" (func $a)))`,
		calls: []call{{fn: "x", want: u(10)}, {fn: "y", want: u(10)}},
	},
	{
		name: "export_before_definition",
		wat: `(module
  (export "x" (func $a))
  (export "g" (global $g))
  (export "m" (memory $m))
  (memory $m 1)
  (global $g i32 (i32.const 3))
  (func $a (result i32) i32.const 10))`,
		calls:   []call{{fn: "x", want: u(10)}},
		globals: map[string]uint64{"g": 3},
		mems:    []string{"m"},
	},
	{
		name: "global_inline_export",
		wat: `(module
  (global $g (export "g") i32 (i32.const 5))
  (global $h (export "h") (mut i64) (i64.const -2))
  (global (export "k") f32 (f32.const 1.5))
  (func $f (export "f") (result i32) global.get $g))`,
		calls:   []call{{fn: "f", want: u(5)}},
		globals: map[string]uint64{"g": 5, "h": i64(-2), "k": f32(1.5)},
	},
	{
		name: "global_export_by_index",
		wat: `(module
  (global $g i32 (i32.const 5))
  (global $h i32 (i32.const 6))
  (export "h" (global 1))
  (export "g" (global 0)))`,
		globals: map[string]uint64{"g": 5, "h": 6},
	},
	{
		name: "memory_inline_export",
		wat: `(module
  (memory (export "mem") 1))`,
		mems: []string{"mem"},
	},
	{
		name: "memory_export_by_name_and_index",
		wat: `(module
  (memory $m 1)
  (export "a" (memory $m))
  (export "b" (memory 0)))`,
		mems: []string{"a", "b"},
	},
	{
		name: "table_export",
		wat: `(module
  (table $t 2 funcref)
  (export "t" (table $t))
  (export "t0" (table 0)))`,
	},
	{
		name: "start_by_name",
		wat: `(module
  (global $g (mut i32) (i32.const 0))
  (func $other (result i32) i32.const 1)
  (func $init i32.const 42 global.set $g)
  (start $init)
  (func $f (export "f") (result i32) global.get $g))`,
		calls: []call{{fn: "f", want: u(42)}},
	},
	{
		name: "start_by_index",
		wat: `(module
  (global $g (mut i32) (i32.const 0))
  (func $other (result i32) i32.const 1)
  (func $init i32.const 42 global.set $g)
  (start 1)
  (func $f (export "f") (result i32) global.get $g))`,
		calls: []call{{fn: "f", want: u(42)}},
	},
	{
		name: "start_before_definition_with_imports",
		env:  envFuncs,
		wat: `(module
  (import "env" "f1" (func $i1 (result i32)))
  (import "env" "nop" (func $nop))
  (start $init)
  (global $g (mut i32) (i32.const 0))
  (func $other (result i32) i32.const 1)
  (func $init call $i1 global.set $g)
  (func $f (export "f") (result i32) global.get $g))`,
		calls: []call{{fn: "f", want: u(100)}},
	},
	{
		name: "start_is_import",
		env:  envFuncs,
		wat: `(module
  (import "env" "f1" (func $i1 (result i32)))
  (import "env" "nop" (func $nop))
  (start $nop)
  (func $f (export "f") (result i32) call $i1))`,
		calls: []call{{fn: "f", want: u(100)}},
	},
	{
		name: "start_traps",
		wat: `(module
  (func $init unreachable)
  (start $init))`,
		instErr: true,
	},
}

func TestProbe_Index(t *testing.T) { runCases(t, casesIndex) }
