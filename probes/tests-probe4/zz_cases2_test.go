package zz_probe

import "testing"

var casesControl = []tcase{
	{
		name: "two_unnamed_funcs_inline_export",
		wat: `(module
  (func (export "a") (result i32) i32.const 1)
  (func (export "b") (result i32) i32.const 2))`,
		calls: []call{{fn: "a", want: u(1)}, {fn: "b", want: u(2)}},
	},
	{
		name: "unnamed_import_and_unnamed_exported_func",
		env:  envFuncs,
		wat: `(module
  (import "env" "f1" (func (result i32)))
  (func (export "a") (result i32) i32.const 1))`,
		calls: []call{{fn: "a", want: u(1)}},
	},
	{
		name: "two_unnamed_globals_inline_export",
		wat: `(module
  (global (export "a") i32 (i32.const 1))
  (global (export "b") i32 (i32.const 2)))`,
		globals: map[string]uint64{"a": 1, "b": 2},
	},
	{
		name: "block_named_labels",
		wat: `(module
  (func $blk (export "blk") (param i32) (result i32)
    block $a (result i32)
      block $b
        local.get 0
        br_if $b
        i32.const 11
        br $a
      end
      i32.const 22
    end))`,
		calls: []call{{fn: "blk", args: u(0), want: u(11)}, {fn: "blk", args: u(1), want: u(22)}},
	},
	{
		name: "block_numeric_labels",
		wat: `(module
  (func $blk (export "blk") (param i32) (result i32)
    block (result i32)
      block
        local.get 0
        br_if 0
        i32.const 11
        br 1
      end
      i32.const 22
    end))`,
		calls: []call{{fn: "blk", args: u(0), want: u(11)}, {fn: "blk", args: u(1), want: u(22)}},
	},
	{
		name: "mixed_named_unnamed_nesting",
		wat: `(module
  (func $f (export "f") (param i32) (result i32)
    block $outer (result i32)
      block
        loop
          block $inner
            local.get 0
            br_if $inner
            i32.const 1
            br $outer
          end
          i32.const 2
          br $outer
        end
      end
      i32.const 3
    end))`,
		calls: []call{{fn: "f", args: u(0), want: u(1)}, {fn: "f", args: u(1), want: u(2)}},
	},
	{
		name: "shadowed_label",
		wat: `(module
  (func $f (export "f") (result i32)
    block $l (result i32)
      block $l (result i32)
        i32.const 1
        br $l
      end
      drop
      i32.const 2
    end))`,
		calls: []call{{fn: "f", want: u(2)}},
	},
	{
		name: "br_to_function_level",
		wat: `(module
  (func $f (export "f") (param i32) (result i32)
    block
      local.get 0
      i32.eqz
      br_if 0
      i32.const 7
      br 1
    end
    i32.const 8))`,
		calls: []call{{fn: "f", args: u(0), want: u(8)}, {fn: "f", args: u(1), want: u(7)}},
	},
	{
		name: "multi_result_block_if_loop",
		wat: `(module
  (func $mr (export "mr") (result i32 i64)
    block (result i32 i64)
      i32.const 1 i64.const 2
    end)
  (func $mi (export "mi") (param i32) (result i32 f64)
    local.get 0
    if (result i32 f64)
      i32.const 1 f64.const 2.5
    else
      i32.const 3 f64.const 4.5
    end)
  (func $ml (export "ml") (result f32 i32)
    loop $l (result f32 i32)
      f32.const 1.5 i32.const 9
    end)
  (func $m3 (export "m3") (result i64 i64 i32)
    block $x (result i64 i64 i32)
      i64.const 1 i64.const 2 i32.const 3
      br $x
    end))`,
		calls: []call{
			{fn: "mr", want: u(1, 2)},
			{fn: "mi", args: u(1), want: u(1, f64(2.5))},
			{fn: "mi", args: u(0), want: u(3, f64(4.5))},
			{fn: "ml", want: u(f32(1.5), 9)},
			{fn: "m3", want: u(1, 2, 3)},
		},
	},
	{
		name: "multi_result_only_in_block_no_func_type",
		wat: `(module
  (func $f (export "f") (result i32)
    block (result i32 i32)
      i32.const 4 i32.const 5
    end
    i32.add))`,
		calls: []call{{fn: "f", want: u(9)}},
	},
	{
		name: "multi_result_separate_result_clauses",
		wat: `(module
  (func $f (export "f") (result i32) (result i32)
    i32.const 4 i32.const 5))`,
		calls: []call{{fn: "f", want: u(4, 5)}},
	},
	{
		name: "block_two_result_clauses",
		wat: `(module
  (func $f (export "f") (result i32)
    block (result i32) (result i32)
      i32.const 4 i32.const 5
    end
    i32.add))`,
		calls: []call{{fn: "f", want: u(9)}},
	},
	{
		name: "block_with_params",
		wat: `(module
  (func $f (export "f") (result i32)
    i32.const 4
    block (param i32) (result i32)
      i32.const 5
      i32.add
    end))`,
		calls: []call{{fn: "f", want: u(9)}},
	},
	{
		name: "block_typeuse",
		wat: `(module
  (type $t (func (result i32)))
  (func $f (export "f") (result i32)
    block (type $t)
      i32.const 5
    end))`,
		calls: []call{{fn: "f", want: u(5)}},
	},
	{
		name: "loop_with_result_and_tee",
		wat: `(module
  (func $lp (export "lp") (param $n i32) (result i32) (local $acc i32)
    loop $l (result i32)
      local.get $acc local.get $n i32.add local.set $acc
      local.get $n i32.const 1 i32.sub local.tee $n
      br_if $l
      local.get $acc
    end))`,
		calls: []call{{fn: "lp", args: u(4), want: u(10)}},
	},
	{
		name: "if_variants",
		wat: `(module
  (func $a (export "a") (param i32) (result i32) (local $r i32)
    local.get 0
    if
      i32.const 1 local.set $r
    end
    local.get $r)
  (func $b (export "b") (param i32) (result i32) (local $r i32)
    local.get 0
    if $l
      i32.const 1 local.set $r
      br $l
      i32.const 5 local.set $r
    else
      i32.const 2 local.set $r
    end
    local.get $r)
  (func $c (export "c") (param i32) (result i32)
    local.get 0
    if $l (result i32)
      i32.const 1
    else
      i32.const 2
      br $l
    end)
  (func $d (export "d") (param i32) (result i32)
    local.get 0
    if
    else
      i32.const 9 return
    end
    i32.const 3)
  (func $e (export "e") (param i32) (result i32)
    local.get 0
    if
      i32.const 9 return
    else
    end
    i32.const 3))`,
		calls: []call{
			{fn: "a", args: u(1), want: u(1)}, {fn: "a", args: u(0), want: u(0)},
			{fn: "b", args: u(1), want: u(1)}, {fn: "b", args: u(0), want: u(2)},
			{fn: "c", args: u(1), want: u(1)}, {fn: "c", args: u(0), want: u(2)},
			{fn: "d", args: u(1), want: u(3)}, {fn: "d", args: u(0), want: u(9)},
			{fn: "e", args: u(1), want: u(9)}, {fn: "e", args: u(0), want: u(3)},
		},
	},
	{
		name: "end_and_else_with_label",
		wat: `(module
  (func $c (export "c") (param i32) (result i32)
    local.get 0
    if $l (result i32)
      i32.const 1
    else $l
      i32.const 2
    end $l))`,
		calls: []call{{fn: "c", args: u(1), want: u(1)}, {fn: "c", args: u(0), want: u(2)}},
	},
	{
		name: "br_table_many_repeated",
		wat: `(module
  (func $bt (export "bt") (param i32) (result i32)
    block $d block $c block $b block $a
      local.get 0
      br_table $a $b $a $c $b 3
    end i32.const 100 return
    end i32.const 101 return
    end i32.const 102 return
    end i32.const 103))`,
		calls: []call{
			{fn: "bt", args: u(0), want: u(100)}, {fn: "bt", args: u(1), want: u(101)},
			{fn: "bt", args: u(2), want: u(100)}, {fn: "bt", args: u(3), want: u(102)},
			{fn: "bt", args: u(4), want: u(101)}, {fn: "bt", args: u(5), want: u(103)},
			{fn: "bt", args: u(0xffffffff), want: u(103)},
		},
	},
	{
		name: "br_table_default_only_and_value",
		wat: `(module
  (func $a (export "a") (param i32) (result i32)
    block (result i32)
      i32.const 7
      local.get 0
      br_table 0
    end)
  (func $b (export "b") (param i32) (result i32)
    block $o (result i32)
      block $i (result i32)
        i32.const 7
        local.get 0
        br_table $i $o $i
      end
      i32.const 1
      i32.add
    end))`,
		calls: []call{
			{fn: "a", args: u(3), want: u(7)},
			{fn: "b", args: u(0), want: u(8)}, {fn: "b", args: u(1), want: u(7)}, {fn: "b", args: u(2), want: u(8)},
		},
	},
	{
		name: "br_table_130_labels",
		wat: `(module
  (func $a (export "a") (param i32) (result i32)
    block $x
      block $y
        local.get 0
        br_table 0 0 0 0 0 0 0 0 0 0 0 0 0 0 0 0 0 0 0 0 0 0 0 0 0 0 0 0 0 0 0 0 0 0 0 0 0 0 0 0 0 0 0 0 0 0 0 0 0 0 0 0 0 0 0 0 0 0 0 0 0 0 0 0 0 0 0 0 0 0 0 0 0 0 0 0 0 0 0 0 0 0 0 0 0 0 0 0 0 0 0 0 0 0 0 0 0 0 0 0 0 0 0 0 0 0 0 0 0 0 0 0 0 0 0 0 0 0 0 0 0 0 0 0 0 0 0 0 0 0 1 $y
      end
      i32.const 1 return
    end
    i32.const 2))`,
		calls: []call{
			{fn: "a", args: u(0), want: u(1)}, {fn: "a", args: u(129), want: u(1)},
			{fn: "a", args: u(130), want: u(2)}, {fn: "a", args: u(131), want: u(1)},
		},
	},
	{
		name: "select_variants",
		wat: `(module
  (func $a (export "a") (param i32) (result i32) i32.const 10 i32.const 20 local.get 0 select)
  (func $b (export "b") (param i32) (result i64) i64.const 10 i64.const 20 local.get 0 select (result i64))
  (func $c (export "c") (param i32) (result f64) f64.const 1.5 f64.const 2.5 local.get 0 select (result f64))
  (func $d (export "d") (param i32) (result f32) f32.const 1.5 f32.const 2.5 local.get 0 select))`,
		calls: []call{
			{fn: "a", args: u(1), want: u(10)}, {fn: "a", args: u(0), want: u(20)},
			{fn: "b", args: u(1), want: u(10)}, {fn: "b", args: u(0), want: u(20)},
			{fn: "c", args: u(1), want: u(f64(1.5))}, {fn: "c", args: u(0), want: u(f64(2.5))},
			{fn: "d", args: u(1), want: u(f32(1.5))}, {fn: "d", args: u(0), want: u(f32(2.5))},
		},
	},
	{
		name: "unreachable_nop_return_drop",
		wat: `(module
  (func $a (export "a") (result i32) nop i32.const 1 i32.const 2 drop nop return unreachable)
  (func $b (export "b") (result i32) unreachable))`,
		calls: []call{{fn: "a", want: u(1)}, {fn: "b", trap: true}},
	},
	{
		name: "recursion",
		wat: `(module
  (func $fact (export "fact") (param $n i64) (result i64)
    local.get $n
    i64.eqz
    if (result i64)
      i64.const 1
    else
      local.get $n
      local.get $n
      i64.const 1
      i64.sub
      call $fact
      i64.mul
    end)
  (func $even (export "even") (param i32) (result i32)
    local.get 0 i32.eqz if (result i32) i32.const 1 else local.get 0 i32.const 1 i32.sub call $odd end)
  (func $odd (param i32) (result i32)
    local.get 0 i32.eqz if (result i32) i32.const 0 else local.get 0 i32.const 1 i32.sub call $even end))`,
		calls: []call{{fn: "fact", args: u(10), want: u(3628800)}, {fn: "even", args: u(7), want: u(0)}, {fn: "even", args: u(8), want: u(1)}},
	},
	{
		name: "folded_instructions",
		wat: `(module
  (func $f (export "f") (result i32)
    (i32.add (i32.const 1) (i32.const 2))))`,
		calls: []call{{fn: "f", want: u(3)}},
	},
	{
		name: "func_typeuse",
		wat: `(module
  (type $t (func (param i32) (result i32)))
  (func $f (export "f") (type $t) local.get 0))`,
		calls: []call{{fn: "f", args: u(3), want: u(3)}},
	},
}

func TestProbe_Control(t *testing.T) { runCases(t, casesControl) }
