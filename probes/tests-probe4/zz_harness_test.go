package zz_probe

import (
	"bytes"
	"context"
	"fmt"
	"math"
	"os"
	"strings"
	"testing"

	"wa-lang.org/wa/internal/3rdparty/wazero"
	"wa-lang.org/wa/internal/3rdparty/wazero/api"
	"wa-lang.org/wa/internal/wat/watutil"
	"wa-lang.org/wa/internal/wat/watutil/watfmt"
	"wa-lang.org/wa/internal/wat/watutil/watstrip"
)

type call struct {
	fn   string
	args []uint64
	want []uint64
	trap bool
}

type tcase struct {
	name    string
	wat     string
	env     string            // optional provider module, instantiated as "env"
	calls   []call            // run in sequence on a fresh instance
	globals map[string]uint64 // exported globals to check after instantiation
	mems    []string          // exported memories that must exist
	instErr bool              // instantiation is expected to fail (e.g. start traps)
}

func f32(x float32) uint64 { return uint64(math.Float32bits(x)) }
func f64(x float64) uint64 { return math.Float64bits(x) }
func i32(x int32) uint64   { return uint64(uint32(x)) }
func i64(x int64) uint64   { return uint64(x) }
func u(xs ...uint64) []uint64 {
	return xs
}

func safely(f func() ([]byte, error)) (out []byte, err error, pan interface{}) {
	defer func() {
		if r := recover(); r != nil {
			pan = r
		}
	}()
	out, err = f()
	return
}

func asm(src string) ([]byte, error, interface{}) {
	return safely(func() ([]byte, error) { return watutil.Wat2Wasm("t.wat", []byte(src)) })
}
func format(src string) ([]byte, error, interface{}) {
	return safely(func() ([]byte, error) { return watfmt.Format("t.wat", []byte(src)) })
}
func strip(src string) ([]byte, error, interface{}) {
	return safely(func() ([]byte, error) { return watstrip.WatStrip("t.wat", []byte(src)) })
}

// runs the module on the engine and renders an observation log
func observe(tc *tcase, wasmBytes []byte) (log string, fatal string) {
	ctx := context.Background()
	rt := wazero.NewRuntime(ctx)
	defer rt.Close(ctx)

	if tc.env != "" {
		envBytes, err, pan := asm(tc.env)
		if err != nil || pan != nil {
			return "", fmt.Sprintf("HARNESS: env module does not assemble: %v %v", err, pan)
		}
		cm, err := rt.CompileModule(ctx, envBytes)
		if err != nil {
			return "", fmt.Sprintf("HARNESS: env module does not compile: %v", err)
		}
		if _, err := rt.InstantiateModule(ctx, cm, wazero.NewModuleConfig().WithName("env")); err != nil {
			return "", fmt.Sprintf("HARNESS: env module does not instantiate: %v", err)
		}
	}

	cm, err := rt.CompileModule(ctx, wasmBytes)
	if err != nil {
		return "", fmt.Sprintf("ENGINE-REJECT(compile): %v", err)
	}
	var mod api.Module
	func() {
		defer func() {
			if r := recover(); r != nil {
				err = fmt.Errorf("panic: %v", r)
			}
		}()
		mod, err = rt.InstantiateModule(ctx, cm, wazero.NewModuleConfig().WithName("main"))
	}()
	if err != nil {
		if tc.instErr {
			return "instantiate: error\n", ""
		}
		return "", fmt.Sprintf("ENGINE-REJECT(instantiate): %v", err)
	}
	var sb strings.Builder
	sb.WriteString("instantiate: ok\n")
	for name := range tc.globals {
		g := mod.ExportedGlobal(name)
		if g == nil {
			fmt.Fprintf(&sb, "global %s: missing\n", name)
		}
	}
	// deterministic order
	for _, name := range sortedKeys(tc.globals) {
		if g := mod.ExportedGlobal(name); g != nil {
			fmt.Fprintf(&sb, "global %s = %#x\n", name, g.Get(ctx))
		}
	}
	for _, name := range tc.mems {
		if m := mod.ExportedMemory(name); m == nil {
			fmt.Fprintf(&sb, "memory %s: missing\n", name)
		} else {
			fmt.Fprintf(&sb, "memory %s: size %d\n", name, m.Size(ctx))
		}
	}
	for _, c := range tc.calls {
		fn := mod.ExportedFunction(c.fn)
		if fn == nil {
			fmt.Fprintf(&sb, "call %s: missing export\n", c.fn)
			continue
		}
		var res []uint64
		var cerr error
		func() {
			defer func() {
				if r := recover(); r != nil {
					cerr = fmt.Errorf("panic: %v", r)
				}
			}()
			res, cerr = fn.Call(ctx, c.args...)
			if cerr == nil {
				// the engine leaves the upper half of 32-bit results unspecified
				for i, rt := range fn.Definition().ResultTypes() {
					if i < len(res) && (rt == api.ValueTypeI32 || rt == api.ValueTypeF32) {
						res[i] &= 0xffffffff
					}
				}
			}
		}()
		if cerr != nil {
			fmt.Fprintf(&sb, "call %s%v: trap\n", c.fn, c.args)
		} else {
			fmt.Fprintf(&sb, "call %s%v: %#x\n", c.fn, c.args, res)
		}
	}
	return sb.String(), ""
}

func sortedKeys(m map[string]uint64) []string {
	var ks []string
	for k := range m {
		ks = append(ks, k)
	}
	for i := range ks {
		for j := i + 1; j < len(ks); j++ {
			if ks[j] < ks[i] {
				ks[i], ks[j] = ks[j], ks[i]
			}
		}
	}
	return ks
}

// the log the text promises
func expected(tc *tcase) string {
	var sb strings.Builder
	if tc.instErr {
		return "instantiate: error\n"
	}
	sb.WriteString("instantiate: ok\n")
	for _, name := range sortedKeys(tc.globals) {
		fmt.Fprintf(&sb, "global %s = %#x\n", name, tc.globals[name])
	}
	for _, name := range tc.mems {
		fmt.Fprintf(&sb, "memory %s: size", name)
		sb.WriteString(" *\n")
	}
	for _, c := range tc.calls {
		if c.trap {
			fmt.Fprintf(&sb, "call %s%v: trap\n", c.fn, c.args)
		} else {
			w := c.want
			if w == nil {
				w = []uint64{}
			}
			fmt.Fprintf(&sb, "call %s%v: %#x\n", c.fn, c.args, w)
		}
	}
	return sb.String()
}

func sameLog(got, want string) bool {
	gl := strings.Split(got, "\n")
	wl := strings.Split(want, "\n")
	if len(gl) != len(wl) {
		return false
	}
	for i := range gl {
		if strings.HasSuffix(wl[i], " *") {
			if !strings.HasPrefix(gl[i], strings.TrimSuffix(wl[i], "*")) {
				return false
			}
			continue
		}
		if gl[i] != wl[i] {
			return false
		}
	}
	return true
}

// checkAll applies the three properties to one case. Returns violation tags.
func checkAll(t *testing.T, tc *tcase, haveExpect bool) (viol []string) {
	add := func(tag, format string, a ...interface{}) {
		msg := fmt.Sprintf(format, a...)
		viol = append(viol, tag)
		os.MkdirAll("/tmp/probe4/out/details", 0755)
		f, _ := os.OpenFile("/tmp/probe4/out/details/"+strings.ReplaceAll(tc.name, "/", "_")+".txt", os.O_APPEND|os.O_CREATE|os.O_WRONLY, 0644)
		fmt.Fprintf(f, "=== %s\n%s\n", tag, msg)
		f.Close()
		first := strings.SplitN(msg, "\n", 2)[0]
		if len(first) > 200 {
			first = first[:200] + "..."
		}
		t.Errorf("[%s] %s: %s", tc.name, tag, first)
	}

	// (1) assembler
	bin, err, pan := asm(tc.wat)
	if pan != nil {
		add("ASM-PANIC", "%v", pan)
	} else if err != nil {
		add("ASM-REJECT", "%v", err)
	}
	var baseLog string
	if bin != nil {
		log, fatal := observe(tc, bin)
		if fatal != "" {
			add(strings.SplitN(fatal, ":", 2)[0], "%s", fatal)
		} else {
			baseLog = log
			if haveExpect {
				if want := expected(tc); !sameLog(log, want) {
					add("RUN-MISMATCH", "engine disagrees with text\n--- got\n%s--- want\n%s", log, want)
				}
			}
		}
	}

	// (2) printer
	fmt1, err, pan := format(tc.wat)
	if pan != nil {
		add("FMT-PANIC", "%v", pan)
	} else if err != nil {
		if bin != nil {
			add("FMT-ERR", "%v", err)
		}
	} else {
		bin2, err, pan := asm(string(fmt1))
		if pan != nil {
			add("FMT-REASM-PANIC", "%v\n%s", pan, fmt1)
		} else if err != nil {
			add("FMT-REASM-ERR", "%v\n%s", err, fmt1)
		} else if bin != nil && !bytes.Equal(bin, bin2) {
			add("FMT-BINDIFF", "binary differs after print (%d vs %d bytes)\n%s", len(bin), len(bin2), fmt1)
		}
		fmt2, err, pan := format(string(fmt1))
		if pan != nil {
			add("FMT2-PANIC", "%v", pan)
		} else if err != nil {
			add("FMT2-ERR", "%v\n%s", err, fmt1)
		} else if !bytes.Equal(fmt1, fmt2) {
			add("FMT-NOT-IDEMPOTENT", "\n--- first\n%s--- second\n%s", fmt1, fmt2)
		}
	}

	// (3) strip
	st, err, pan := strip(tc.wat)
	if pan != nil {
		add("STRIP-PANIC", "%v", pan)
	} else if err != nil {
		if bin != nil {
			add("STRIP-ERR", "%v", err)
		}
	} else if bin != nil {
		bin3, err, pan := asm(string(st))
		if pan != nil {
			add("STRIP-REASM-PANIC", "%v\n%s", pan, st)
		} else if err != nil {
			add("STRIP-REASM-ERR", "%v\n%s", err, st)
		} else if baseLog != "" {
			log, fatal := observe(tc, bin3)
			if fatal != "" {
				add("STRIP-"+strings.SplitN(fatal, ":", 2)[0], "%s\n%s", fatal, st)
			} else if log != baseLog {
				add("STRIP-BEHAVIOUR", "behaviour differs after strip\n--- before\n%s--- after\n%s--- stripped text\n%s", baseLog, log, st)
			}
		}
	}
	return
}

func runCases(t *testing.T, cases []tcase) {
	for i := range cases {
		tc := &cases[i]
		t.Run(tc.name, func(t *testing.T) {
			checkAll(t, tc, true)
		})
	}
}
