package zz_probe

import (
	"bytes"
	"os"
	"path/filepath"
	"strings"
	"testing"

	"wa-lang.org/wa/api"
	wz "wa-lang.org/wa/internal/wazero"
)

const repoRoot = "/tmp/probe4/wt"

func TestProbe_RepoWatFiles(t *testing.T) {
	list, err := os.ReadFile("/tmp/probe4/out/watfiles.txt")
	if err != nil {
		t.Fatal(err)
	}
	for _, rel := range strings.Fields(string(list)) {
		rel := rel
		t.Run(rel, func(t *testing.T) {
			src, err := os.ReadFile(filepath.Join(repoRoot, rel))
			if err != nil {
				t.Fatal(err)
			}
			tc := &tcase{name: "repo_" + strings.ReplaceAll(rel, "/", "_"), wat: string(src)}
			checkFile(t, tc)
		})
	}
}

// like checkAll but without expectations and tolerant to missing imports
func checkFile(t *testing.T, tc *tcase) {
	bin, err, pan := asm(tc.wat)
	if pan != nil {
		t.Errorf("[%s] ASM-PANIC: %v", tc.name, pan)
		return
	}
	if err != nil {
		t.Errorf("[%s] ASM-REJECT: %v", tc.name, err)
		return
	}
	fmt1, err, pan := format(tc.wat)
	if pan != nil || err != nil {
		t.Errorf("[%s] FMT-FAIL: %v %v", tc.name, err, pan)
	} else {
		bin2, err, pan := asm(string(fmt1))
		if pan != nil || err != nil {
			t.Errorf("[%s] FMT-REASM-FAIL: %v %v", tc.name, err, pan)
		} else if !bytes.Equal(bin, bin2) {
			t.Errorf("[%s] FMT-BINDIFF: %d vs %d bytes", tc.name, len(bin), len(bin2))
			os.MkdirAll("/tmp/probe4/out/details", 0755)
			os.WriteFile("/tmp/probe4/out/details/"+tc.name+".fmt.wat", fmt1, 0644)
		}
		fmt2, err, pan := format(string(fmt1))
		if pan != nil || err != nil {
			t.Errorf("[%s] FMT2-FAIL: %v %v", tc.name, err, pan)
		} else if !bytes.Equal(fmt1, fmt2) {
			t.Errorf("[%s] FMT-NOT-IDEMPOTENT", tc.name)
		}
	}
	st, err, pan := strip(tc.wat)
	if pan != nil || err != nil {
		t.Errorf("[%s] STRIP-FAIL: %v %v", tc.name, err, pan)
		return
	}
	if _, err, pan := asm(string(st)); pan != nil || err != nil {
		t.Errorf("[%s] STRIP-REASM-FAIL: %v %v", tc.name, err, pan)
	}
}

func TestProbe_CompilerOutput(t *testing.T) {
	progs := []string{
		"waroot/examples/brainfuck.wa",
		"waroot/examples/copy.wa",
		"waroot/examples/eq.wa",
		"waroot/examples/interface_named.wa",
		"waroot/examples/short-var.wa",
		"waroot/examples/strbytes.wa",
		"waroot/examples/struct.wa",
		"waroot/examples/fib/fib.wa",
		"waroot/examples/hello/src/main.wa",
	}
	for _, rel := range progs {
		rel := rel
		t.Run(rel, func(t *testing.T) {
			src, err := os.ReadFile(filepath.Join(repoRoot, rel))
			if err != nil {
				t.Skip(err)
			}
			mainFunc, wat, fset, err := api.BuildFile(api.DefaultConfig(), filepath.Base(rel), string(src))
			if err != nil {
				t.Skipf("build failed: %v", err)
			}
			name := "wa_" + strings.ReplaceAll(rel, "/", "_")
			os.MkdirAll("/tmp/probe4/out/details", 0755)
			os.WriteFile("/tmp/probe4/out/details/"+name+".wat", wat, 0644)
			tc := &tcase{name: name, wat: string(wat)}
			checkFile(t, tc)

			run := func(w []byte) string {
				bin, err, pan := asm(string(w))
				if err != nil || pan != nil {
					return "asm fail"
				}
				stdout, stderr, err := wz.RunWasm("x.wa", bin, fset, mainFunc)
				s := string(stdout) + "|" + string(stderr)
				if err != nil {
					s += "|err:" + err.Error()
				}
				return s
			}
			base := run(wat)
			if st, err, pan := strip(string(wat)); err == nil && pan == nil {
				if got := run(st); got != base {
					t.Errorf("[%s] STRIP-BEHAVIOUR: %q vs %q", name, trunc(base), trunc(got))
				}
				t.Logf("strip: %d -> %d bytes of wat", len(wat), len(st))
			}
			if f, err, pan := format(string(wat)); err == nil && pan == nil {
				if got := run(f); got != base {
					t.Errorf("[%s] FMT-BEHAVIOUR: %q vs %q", name, trunc(base), trunc(got))
				}
			}
			t.Logf("output: %q", trunc(base))
		})
	}
}

func trunc(s string) string {
	if len(s) > 300 {
		return s[:300] + "..."
	}
	return s
}
