package zz_probe

import (
	"fmt"
	"math"
	"strings"
	"testing"
)

type constCase struct {
	ty   string
	lit  string
	want uint64
}

var constCases = []constCase{
	{"i32", "0", 0},
	{"i32", "1", 1},
	{"i32", "-1", 0xffffffff},
	{"i32", "2147483647", 0x7fffffff},
	{"i32", "-2147483648", 0x80000000},
	{"i32", "2147483648", 0x80000000},
	{"i32", "4294967295", 0xffffffff},
	{"i32", "0x7fffffff", 0x7fffffff},
	{"i32", "0x7FFFFFFF", 0x7fffffff},
	{"i32", "0xff", 0xff},
	{"i32", "0x0", 0},
	{"i32", "-0x1", 0xffffffff},
	{"i32", "-0x7fffffff", 0x80000001},
	{"i32", "007", 7},
	{"i32", "010", 10},
	{"i32", "+5", 5},
	{"i32", "1_000", 1000},
	{"i32", "0x1_0", 16},
	{"i32", "64", 64},
	{"i32", "-64", 0xffffffc0},
	{"i32", "-65", 0xffffffbf},
	{"i32", "63", 63},
	{"i32", "127", 127}, {"i32", "128", 128}, {"i32", "8191", 8191}, {"i32", "8192", 8192}, {"i32", "-8192", 0xffffe000}, {"i32", "-8193", 0xffffdfff},
	{"i64", "0", 0},
	{"i64", "-1", math.MaxUint64},
	{"i64", "9223372036854775807", 0x7fffffffffffffff},
	{"i64", "-9223372036854775808", 0x8000000000000000},
	{"i64", "9223372036854775808", 0x8000000000000000},
	{"i64", "18446744073709551615", math.MaxUint64},
	{"i64", "0x7fffffffffffffff", 0x7fffffffffffffff},
	{"i64", "0x100000000", 0x100000000},
	{"i64", "4294967296", 0x100000000},
	{"i64", "-0x10", 0xfffffffffffffff0},
	{"i64", "-4294967297", 0xfffffffeffffffff},
	{"i64", "1_000_000", 1000000},
	{"f32", "0", f32(0)},
	{"f32", "-0", f32(float32(math.Copysign(0, -1)))},
	{"f32", "-0.0", f32(float32(math.Copysign(0, -1)))},
	{"f32", "1.5", f32(1.5)},
	{"f32", "1e10", f32(1e10)},
	{"f32", "1E10", f32(1e10)},
	{"f32", "1e+10", f32(1e10)},
	{"f32", "1.5e-3", f32(1.5e-3)},
	{"f32", "0x1p-3", f32(0.125)},
	{"f32", "0x1.8p1", f32(3)},
	{"f32", "0x1.8", f32(1.5)},
	{"f32", "0x10", f32(16)},
	{"f32", "-0x1p+4", f32(-16)},
	{"f32", "0.1", f32(0.1)},
	{"f32", "16777217", f32(16777216)},
	{"f32", "3.4028235e38", f32(math.MaxFloat32)},
	{"f32", "1e-45", f32(math.SmallestNonzeroFloat32)},
	{"f32", "1.", f32(1)},
	{"f32", "5", f32(5)},
	{"f32", "-5", f32(-5)},
	{"f32", "123456789", f32(123456789)},
	{"f32", "0.000001", f32(0.000001)},
	{"f32", "1e21", f32(1e21)},
	{"f32", "1.17549435e-38", f32(1.17549435e-38)},
	{"f32", "inf", f32(float32(math.Inf(1)))},
	{"f32", "-inf", f32(float32(math.Inf(-1)))},
	{"f32", "1_0.5", f32(10.5)},
	{"f64", "0", f64(0)},
	{"f64", "-0.0", f64(math.Copysign(0, -1))},
	{"f64", "-0", f64(math.Copysign(0, -1))},
	{"f64", "0.1", f64(0.1)},
	{"f64", "1e308", f64(1e308)},
	{"f64", "1.7976931348623157e308", f64(math.MaxFloat64)},
	{"f64", "4.9e-324", f64(math.SmallestNonzeroFloat64)},
	{"f64", "5e-324", f64(math.SmallestNonzeroFloat64)},
	{"f64", "0x1.fffffffffffffp1023", f64(math.MaxFloat64)},
	{"f64", "0x1p-1074", f64(math.SmallestNonzeroFloat64)},
	{"f64", "123456789.123456789", f64(123456789.123456789)},
	{"f64", "1e21", f64(1e21)},
	{"f64", "1e20", f64(1e20)},
	{"f64", "100000000000000000000", f64(1e20)},
	{"f64", "1e-7", f64(1e-7)},
	{"f64", "3.141592653589793", f64(math.Pi)},
	{"f64", "9007199254740993", f64(9007199254740992)},
	{"f64", "18446744073709551616", f64(18446744073709551616)},
	{"f64", "inf", f64(math.Inf(1))},
	{"f64", "-inf", f64(math.Inf(-1))},
	{"f64", "2.2250738585072014e-308", f64(2.2250738585072014e-308)},
}

func TestProbe_Consts(t *testing.T) {
	var cases []tcase
	for i, c := range constCases {
		// in a function body
		cases = append(cases, tcase{
			name:  fmt.Sprintf("const_%s_%d_%s", c.ty, i, strings.NewReplacer("+", "plus", "-", "neg", ".", "_").Replace(c.lit)),
			wat:   fmt.Sprintf("(module (func $f (export \"f\") (result %s) %s.const %s))", c.ty, c.ty, c.lit),
			calls: []call{{fn: "f", want: u(c.want)}},
		})
		// as a global initialiser
		cases = append(cases, tcase{
			name:    fmt.Sprintf("gconst_%s_%d_%s", c.ty, i, strings.NewReplacer("+", "plus", "-", "neg", ".", "_").Replace(c.lit)),
			wat:     fmt.Sprintf("(module (global $g (export \"g\") %s (%s.const %s)))", c.ty, c.ty, c.lit),
			globals: map[string]uint64{"g": c.want},
		})
	}
	runCases(t, cases)
}

var casesGlobals = []tcase{
	{
		name: "globals_each_type_mut_immut",
		wat: `(module
  (global $a i32 (i32.const -5))
  (global $b (mut i32) (i32.const 6))
  (global $c i64 (i64.const -7))
  (global $d (mut i64) (i64.const 8))
  (global $e f32 (f32.const 1.25))
  (global $f (mut f32) (f32.const -2.5))
  (global (mut i32) (i32.const 99))
  (func (export "geta") (result i32) global.get $a)
  (func $getb (export "getb") (result i32) global.get $b)
  (func $setb (export "setb") (param i32) local.get 0 global.set $b)
  (func $getc (export "getc") (result i64) global.get $c)
  (func $getd (export "getd") (result i64) global.get 3)
  (func $setd (export "setd") (param i64) local.get 0 global.set 3)
  (func $gete (export "gete") (result f32) global.get $e)
  (func $getf (export "getf") (result f32) global.get $f)
  (func $setf (export "setf") (param f32) local.get 0 global.set $f)
  (func $get6 (export "get6") (result i32) global.get 6)
  (func $set6 (export "set6") (param i32) local.get 0 global.set 6))`,
		calls: []call{
			{fn: "getb", want: u(6)}, {fn: "setb", args: u(60)}, {fn: "getb", want: u(60)},
			{fn: "getc", want: u(i64(-7))}, {fn: "getd", want: u(8)}, {fn: "setd", args: u(80)}, {fn: "getd", want: u(80)},
			{fn: "gete", want: u(f32(1.25))}, {fn: "getf", want: u(f32(-2.5))}, {fn: "setf", args: u(f32(3.5))}, {fn: "getf", want: u(f32(3.5))},
			{fn: "get6", want: u(99)}, {fn: "set6", args: u(98)}, {fn: "get6", want: u(98)},
		},
	},
	{
		name: "global_f64",
		wat: `(module
  (global $g f64 (f64.const 2.5))
  (func $f (export "f") (result f64) global.get $g))`,
		calls: []call{{fn: "f", want: u(f64(2.5))}},
	},
	{
		name: "global_init_from_imported_global",
		env:  envFuncs,
		wat: `(module
  (import "env" "g0" (global $ig i32))
  (global $g i32 (global.get $ig))
  (func $f (export "f") (result i32) global.get $g))`,
		calls: []call{{fn: "f", want: u(77)}},
	},
	{
		name: "imported_mutable_global",
		env: `(module (global $g (mut i32) (i32.const 5)) (export "g" (global $g)))`,
		wat: `(module
  (import "env" "g" (global $g (mut i32)))
  (func $f (export "f") (result i32) i32.const 6 global.set $g global.get $g))`,
		calls: []call{{fn: "f", want: u(6)}},
	},
	{
		name: "global_type_after_export_and_order",
		wat: `(module
  (global $g (export "g") (mut i32) (i32.const 5)))`,
		globals: map[string]uint64{"g": 5},
	},
}

func TestProbe_Globals(t *testing.T) { runCases(t, casesGlobals) }

var casesComments = []tcase{
	{
		name: "comments_between_fields_and_instrs",
		wat: `;; leading
(; block ;)
(module ;; after module
  (; c ;) (func $f (export "f") (result i32) ;; header
    ;; before instr
    i32.const 1 (; mid ;) i32.const 2 ;; tail
    (; multi
       line ;)
    i32.add ;; last
  ) ;; after func
  ;; before close
) ;; trailing
(; end ;)`,
		calls: []call{{fn: "f", want: u(3)}},
	},
	{
		name: "comment_eof_without_newline",
		wat:  "(module (func $f (export \"f\") (result i32) i32.const 1)) ;; end",
		calls: []call{{fn: "f", want: u(1)}},
	},
	{
		name: "comment_with_parens_and_quotes",
		wat: `(module
  ;; ( " unbalanced
  (; ") ( ;)
  (func $f (export "f") (result i32) i32.const 1))`,
		calls: []call{{fn: "f", want: u(1)}},
	},
	{
		name: "comment_empty_block_and_semis",
		wat: `(module
  (;;)
  ;;;; many
  ;;
  (func $f (export "f") (result i32) i32.const 1))`,
		calls: []call{{fn: "f", want: u(1)}},
	},
	{
		name: "comment_nested_block",
		wat: `(module
  (; outer (; inner ;) still outer ;)
  (func $f (export "f") (result i32) i32.const 1))`,
		calls: []call{{fn: "f", want: u(1)}},
	},
	{
		name: "comment_between_instr_and_immediate",
		wat: `(module
  (func $f (export "f") (result i32) i32.const (; c ;) 1))`,
		calls: []call{{fn: "f", want: u(1)}},
	},
	{
		name: "comment_inside_param",
		wat: `(module
  (func $f (export "f") (param (; c ;) i32) (result i32) local.get 0))`,
		calls: []call{{fn: "f", args: u(4), want: u(4)}},
	},
	{
		name: "comment_inside_result",
		wat: `(module
  (func $f (export "f") (result (; c ;) i32) i32.const 1))`,
		calls: []call{{fn: "f", want: u(1)}},
	},
	{
		name: "comment_after_func_keyword_and_name",
		wat: `(module
  (func (; a ;) $f (; b ;) (export "f") (; c ;) (result i32) i32.const 1))`,
		calls: []call{{fn: "f", want: u(1)}},
	},
	{
		name: "comment_inside_inline_export",
		wat: `(module
  (func $f (export (; c ;) "f") (result i32) i32.const 1))`,
		calls: []call{{fn: "f", want: u(1)}},
	},
	{
		name: "comment_in_global",
		wat: `(module
  (global $g (; c ;) i32 (; d ;) (i32.const 5) (; e ;))
  (func $f (export "f") (result i32) global.get $g))`,
		calls: []call{{fn: "f", want: u(5)}},
	},
	{
		name: "comment_in_global_line",
		wat: `(module
  (global $g i32 ;; the type
    (i32.const 5))
  (func $f (export "f") (result i32) global.get $g))`,
		calls: []call{{fn: "f", want: u(5)}},
	},
	{
		name: "comment_in_memory_data",
		wat: `(module
  (memory (; c ;) 1 (; d ;))
  (data (; c ;) (i32.const 0) (; d ;) "ab" (; e ;))
  (func $l (export "l") (param i32) (result i32) local.get 0 i32.load8_u))`,
		calls: []call{{fn: "l", args: u(1), want: u('b')}},
	},
	{
		name: "comment_in_data_line",
		wat: `(module
  (memory 1)
  (data (i32.const 0) ;; offset
    "ab")
  (func $l (export "l") (param i32) (result i32) local.get 0 i32.load8_u))`,
		calls: []call{{fn: "l", args: u(1), want: u('b')}},
	},
	{
		name: "comment_in_table_elem",
		wat: `(module
  (type $r (func (result i32)))
  (table (; c ;) 1 (; d ;) funcref)
  (elem (; c ;) (i32.const 0) (; d ;) $a (; e ;))
  (func $a (result i32) i32.const 1)
  (func $f (export "f") (result i32) i32.const 0 call_indirect (; c ;) (type $r)))`,
		calls: []call{{fn: "f", want: u(1)}},
	},
	{
		name: "comment_in_type_import_export_start",
		env:  envFuncs,
		wat: `(module
  (type (; c ;) $r (; d ;) (func (; e ;) (result i32)))
  (import (; c ;) "env" (; d ;) "f1" (; e ;) (func $i1 (; f ;) (result i32)))
  (export (; c ;) "x" (; d ;) (func (; e ;) $i1 (; f ;)))
  (func $s)
  (start (; c ;) $s (; d ;)))`,
		calls: []call{{fn: "x", want: u(100)}},
	},
	{
		name: "comment_in_block_header_and_br_table",
		wat: `(module
  (func $f (export "f") (result i32)
    block (; c ;) $l (; d ;) (result i32) (; e ;)
      i32.const 1
      i32.const 0
      br_table (; x ;) $l (; y ;) $l
    end))`,
		calls: []call{{fn: "f", want: u(1)}},
	},
	{
		name: "comment_in_load_immediates",
		wat: `(module
  (memory 1)
  (func $f (export "f") (result i32)
    i32.const 0
    i32.load (; a ;) offset=4 (; b ;) align=1))`,
		calls: []call{{fn: "f", want: u(0)}},
	},
	{
		name: "comment_in_local",
		wat: `(module
  (func $f (export "f") (result i32) (local (; a ;) $x (; b ;) i32)
    local.get $x))`,
		calls: []call{{fn: "f", want: u(0)}},
	},
	{
		name: "comment_before_module_name",
		wat: `(module (; a ;) $m (; b ;)
  (func $f (export "f") (result i32) i32.const 1))`,
		calls: []call{{fn: "f", want: u(1)}},
	},
	{
		name: "string_with_semicolons_and_parens",
		wat: `(module
  (memory 1)
  (data (i32.const 0) ";; (; not a comment ;) )")
  (func $l (export "l") (param i32) (result i32) local.get 0 i32.load8_u))`,
		calls: []call{{fn: "l", args: u(0), want: u(';')}, {fn: "l", args: u(23), want: u(')')}},
	},
	{
		name: "export_import_names_with_escapes",
		wat: `(module
  (func $f (export "a\"b\\c") (result i32) i32.const 1)
  (func $g (result i32) i32.const 2)
  (export "q\"r" (func $g))
  (export "tab\there" (func $g))
  (export "uni-é中" (func $g))
  (export "" (func $g)))`,
		calls: []call{{fn: "a\"b\\c", want: u(1)}, {fn: "q\"r", want: u(2)}, {fn: "tab\there", want: u(2)}, {fn: "uni-é中", want: u(2)}, {fn: "", want: u(2)}},
	},
	{
		name: "ident_odd_chars",
		wat: `(module
  (func $a.b/c:d!e#f%g*h+i-j<k=l>m?n@o\p^q_r~s'|` + "`" + ` (result i32) i32.const 1)
  (func $f (export "f") (result i32) call $a.b/c:d!e#f%g*h+i-j<k=l>m?n@o\p^q_r~s'|` + "`" + `))`,
		calls: []call{{fn: "f", want: u(1)}},
	},
	{
		name: "ident_ampersand",
		wat: `(module
  (func $a&b (result i32) i32.const 1)
  (func $f (export "f") (result i32) call $a&b))`,
		calls: []call{{fn: "f", want: u(1)}},
	},
	{
		name: "ident_unicode_wa_style",
		wat: `(module
  (func $$runtime.中文.init (result i32) i32.const 1)
  (func $f (export "f") (result i32) call $$runtime.中文.init))`,
		calls: []call{{fn: "f", want: u(1)}},
	},
	{
		name: "no_whitespace_between_tokens",
		wat:  `(module(func $f(export "f")(param $x i32)(result i32)local.get $x i32.const 1 i32.add)(memory 1)(data(i32.const 0)"x"))`,
		calls: []call{{fn: "f", args: u(2), want: u(3)}},
	},
	{
		name: "module_named_and_empty",
		wat:  `(module $m)`,
	},
	{
		name: "module_only_types",
		wat:  `(module (type $t (func (param i32 i64) (result f32 f64))))`,
	},
	{
		name: "module_only_data_no_memory_fields_order",
		wat: `(module
  (data (i32.const 0) "x")
  (memory 1))`,
	},
	{
		name: "module_start_only_func",
		wat:  `(module (start $s) (func $s))`,
	},
}

func TestProbe_Comments(t *testing.T) { runCases(t, casesComments) }
