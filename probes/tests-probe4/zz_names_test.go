package zz_probe

import (
	"fmt"
	"testing"

	"wa-lang.org/wa/internal/wasm"
	"wa-lang.org/wa/internal/wasm/binary"
)

func decode(t *testing.T, src string) *wasm.Module {
	bin, err, pan := asm(src)
	if err != nil || pan != nil {
		t.Fatalf("asm: %v %v", err, pan)
	}
	m, err := binary.DecodeModule(bin, wasm.CoreFeaturesV2, wasm.MemoryLimitPages, false)
	if err != nil {
		t.Fatalf("decode: %v", err)
	}
	return m
}

func TestProbe_Names(t *testing.T) {
	m := decode(t, `(module $m
 (type $t (func (param $tp i32)))
 (type $t2 (func (param $tq i64)))
 (import "env" "f1" (func $imp (param $ip i32)))
 (func $a (param $x i32) (local $y i64))
 (func (param i32))
 (func $c (local i32) (local $z i32)))`)
	ns := m.NameSection
	fmt.Println("module:", ns.ModuleName)
	for _, f := range ns.FunctionNames {
		fmt.Printf("func %d = %q\n", f.Index, f.Name)
	}
	for _, l := range ns.LocalNames {
		fmt.Printf("locals of func %d:", l.Index)
		for _, x := range l.NameMap {
			fmt.Printf(" %d=%q", x.Index, x.Name)
		}
		fmt.Println()
	}
}

func TestProbe_Limits(t *testing.T) {
	m := decode(t, `(module (import "env" "mem" (memory 1 2)))`)
	fmt.Printf("import mem: min=%d max=%d encoded=%v\n", m.ImportSection[0].DescMem.Min, m.ImportSection[0].DescMem.Max, m.ImportSection[0].DescMem.IsMaxEncoded)
	m = decode(t, `(module (memory 0 0))`)
	fmt.Printf("memory 0 0: min=%d max=%d encoded=%v\n", m.MemorySection.Min, m.MemorySection.Max, m.MemorySection.IsMaxEncoded)
	m = decode(t, `(module (table 0 0 funcref))`)
	fmt.Printf("table 0 0: min=%d max=%v\n", m.TableSection[0].Min, m.TableSection[0].Max)
	m = decode(t, `(module (table 1 3 funcref))`)
	fmt.Printf("table 1 3: min=%d max=%v\n", m.TableSection[0].Min, *m.TableSection[0].Max)
	bin, err, pan := asm(`(module (import "env" "t" (table 1 funcref)))`)
	fmt.Printf("import table funcref: %x %v %v\n", bin, err, pan)
	bin, err, pan = asm(`(module (import "env" "t" (table $t 1 2)))`)
	fmt.Printf("import table w/o reftype: %x %v %v\n", bin, err, pan)
}
