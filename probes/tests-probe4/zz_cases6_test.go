package zz_probe

import "testing"

var casesMisc = []tcase{
	{
		name: "strip_unnamed_export_calls_helper",
		wat: `(module
  (func $helper (result i32) i32.const 5)
  (func (export "a") (result i32) call $helper)
  (func (result i32) i32.const 2))`,
		calls: []call{{fn: "a", want: u(5)}},
	},
	{
		name: "crlf_and_tabs",
		wat:  "(module\r\n\t;; comment\r\n\t(func $f (export \"f\") (result i32)\r\n\t\ti32.const 1 ;; c\r\n\t\t(; b\r\n ;)\r\n\t)\r\n)\r\n",
		calls: []call{{fn: "f", want: u(1)}},
	},
	{
		name: "bom_prefix",
		wat:  "\xef\xbb\xbf(module (func $f (export \"f\") (result i32) i32.const 1))",
		calls: []call{{fn: "f", want: u(1)}},
	},
	{
		name: "imported_table",
		env: `(module (table $t 2 funcref) (func $a (result i32) i32.const 4) (elem (i32.const 0) $a) (export "t" (table $t)))`,
		wat: `(module
  (type $r (func (result i32)))
  (import "env" "t" (table $t 1 funcref))
  (func $f (export "f") (result i32) i32.const 0 call_indirect (type $r)))`,
		calls: []call{{fn: "f", want: u(4)}},
	},
	{
		name: "char_literal_extension",
		wat:  `(module (func $f (export "f") (result i32) i32.const 'a'))`,
		calls: []call{{fn: "f", want: u('a')}},
	},
	{
		name: "keywordish_identifiers",
		wat: `(module
  (global $i32 i32 (i32.const 3))
  (func $func (param $param i32) (result i32) (local $local i32)
    block $block (result i32)
      local.get $param global.get $i32 i32.add
    end)
  (func $end (export "f") (result i32) i32.const 4 call $func))`,
		calls: []call{{fn: "f", want: u(7)}},
	},
	{
		name: "deep_nesting",
		wat: `(module (func $f (export "f") (result i32)
  block $a block $b block $c block $d block $e block $f block $g block $h
    loop $l
      i32.const 1
      if
        br $h
      end
    end
  end br $f
  end br $e
  end i32.const 7 return
  end br $c
  end unreachable
  end unreachable
  end unreachable
  end i32.const 9))`,
		calls: []call{{fn: "f", want: u(7)}},
	},
	{
		name: "export_same_name_kinds",
		wat: `(module
  (memory $m 1)
  (global $g i32 (i32.const 3))
  (func $f (result i32) i32.const 1)
  (export "f" (func $f))
  (export "g" (global $g))
  (export "m" (memory $m)))`,
		calls:   []call{{fn: "f", want: u(1)}},
		globals: map[string]uint64{"g": 3},
		mems:    []string{"m"},
	},
	{
		name: "type_only_used_by_call_indirect_not_by_funcs",
		wat: `(module
  (type $unused (func (param f64 f64) (result f64)))
  (type $r (func (result i32)))
  (table 1 funcref)
  (func $a (result i32) i32.const 4)
  (elem (i32.const 0) $a)
  (func $f (export "f") (result i32) i32.const 0 call_indirect (type $r))
  (func $g (export "g") (result f64) f64.const 1 f64.const 2 i32.const 0 call_indirect (type $unused)))`,
		calls: []call{{fn: "f", want: u(4)}, {fn: "g", trap: true}},
	},
	{
		name: "i64_memory_offsets_large",
		wat: `(module
  (memory 2)
  (data (i32.const 65536) "Q")
  (func $f (export "f") (result i32) i32.const 1 i32.load8_u offset=65535)
  (func $g (export "g") (result i32) i32.const 0 i32.load8_u offset=4294967295))`,
		calls: []call{{fn: "f", want: u('Q')}, {fn: "g", trap: true}},
	},
}

func TestProbe_Misc(t *testing.T) { runCases(t, casesMisc) }
